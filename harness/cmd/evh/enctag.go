package main

// Correspondence harness for M7g EncryptTag: a Taggable map payload (map[string]interface{} with a
// Tags() method) whose values are the trees of the enctree harness, with 0..4 pointer tags over present
// and absent keys, nested maps, pointers to maps, nil values and non-containers on the way; through the
// real encrypt.Filter, printed in the model's prefix notation.  Go-side oracles, from the statements:
// C09 a string that no pointer tag names is redacted; C10 a string tagged public is preserved, the
// input is untouched, the shape and the dynamic type are preserved.

import (
	"context"
	"encoding/json"
	"flag"
	"fmt"
	"reflect"
	"strings"

	"github.com/hashicorp/eventlogger"
	"github.com/hashicorp/eventlogger/filters/encrypt"
	wrapping "github.com/hashicorp/go-kms-wrapping/v2"
)

type treeTagMap map[string]interface{}

var curTreeTags []encrypt.PointerTag

func (m treeTagMap) Tags() ([]encrypt.PointerTag, error) { return curTreeTags, nil }

type tagSpec struct {
	path    []int
	cls, op string
}

func (t tagSpec) pointer() string {
	s := ""
	for _, k := range t.path {
		s += fmt.Sprintf("/k%d", k)
	}
	return s
}

var tagClasses = []string{"public", "public", "public", "sensitive", "sensitive", "sensitive", "sensitive", "secret", "secret", "secret", "secret"}
var tagBadClasses = []string{"Secret", "", "top-secret", "PUBLIC", "unknown"}
var tagOps = []string{"", "", "redact", "encrypt", "hmac-sha256", "REDACT", "bogus"}

// genTagMap: a map whose values are strings mostly, nested maps, pointers to maps, nil, and whatever
// else an untagged map may hold
func (h *treeHarness) genTagMap(depth int) *tv {
	p := h.p
	t := &tv{kind: "M"}
	for i := 1 + p.intn(4); i > 0; i-- {
		var v *tv
		switch r := p.intn(12); {
		case r < 5:
			v = &tv{kind: "s", m: h.fresh()}
		case r < 7 && depth > 0:
			v = h.genTagMap(depth - 1)
		case r < 8 && depth > 0:
			v = &tv{kind: "P", child: h.genTagMap(depth - 1)}
		case r < 9:
			v = &tv{kind: "N"}
		case r < 10:
			v = &tv{kind: "o"}
		default:
			v = h.gen(depth, "M")
			for v.kind == "I" || v.kind == "P" || v.kind == "bn" {
				v = &tv{kind: "s", m: h.fresh()}
			}
		}
		t.items = append(t.items, tItem{key: len(t.items) + 1, v: v})
	}
	return t
}

func mapOf(t *tv) *tv {
	if t.kind == "M" {
		return t
	}
	if t.kind == "P" && t.child.kind == "M" {
		return t.child
	}
	return nil
}

// genTags: pointers found by walking down the maps, with absent keys and non-containers on the way
func (h *treeHarness) genTags(root *tv) []tagSpec {
	p := h.p
	var tags []tagSpec
	taken := map[string]bool{}
	for n := p.intn(5); n > 0; n-- {
		cur := root
		var path []int
		var target *tv
		for {
			if p.chance(1, 8) {
				path = append(path, 9) // an absent key
				target = nil
				break
			}
			it := cur.items[p.intn(len(cur.items))]
			path = append(path, it.key)
			target = it.v
			next := mapOf(it.v)
			if next != nil && len(next.items) > 0 && p.chance(4, 5) {
				cur = next
				continue
			}
			if next == nil && p.chance(1, 14) {
				path = append(path, 1) // the pointer goes on through something that is no map
				target = nil
			}
			break
		}
		ts := tagSpec{path: path}
		if target != nil && target.kind == "s" {
			if taken[ts.pointer()] {
				continue // a string is named by one tag at most
			}
			ts.cls, ts.op = tagClasses[p.intn(len(tagClasses))], tagOps[p.intn(len(tagOps))]
			if p.chance(1, 14) {
				ts.cls = tagBadClasses[p.intn(len(tagBadClasses))]
			}
		} else {
			// anything else: classified public, or not classified properly (nil values are left alone,
			// other values make Process fail)
			ts.cls = "public"
			if p.chance(1, 8) {
				ts.cls = tagBadClasses[p.intn(len(tagBadClasses))]
			}
			if target != nil && target.kind == "P" && target.child.kind == "s" {
				// a pointer to a string: what it points at is settable (reflect.Indirect), any tag applies
				if taken[ts.pointer()] {
					continue
				}
				ts.cls = tagClasses[p.intn(len(tagClasses))]
				if p.chance(1, 10) {
					ts.cls = tagBadClasses[p.intn(len(tagBadClasses))]
				}
			}
			if target != nil && target.kind == "N" {
				ts.cls = tagClasses[p.intn(len(tagClasses))]
			}
			ts.op = tagOps[p.intn(len(tagOps))]
		}
		taken[ts.pointer()] = true
		tags = append(tags, ts)
	}
	if p.chance(1, 40) {
		tags = append(tags, tagSpec{path: nil, cls: "public"}) // the empty pointer
	}
	return tags
}

func enctagMain(args []string) {
	fs := flag.NewFlagSet("enctag", flag.ExitOnError)
	seed := fs.Uint64("seed", 1, "seed")
	n := fs.Int("n", 3000, "cases")
	out := fs.String("out", "", "output dir")
	_ = fs.String("corpus", "", "unused")
	fs.Parse(args)
	st := newStats()
	o := openOut(*out)
	p := newPrng(*seed)
	h := &treeHarness{enc: &encHarness{wrappers: map[int]wrapping.Wrapper{}, st: st}, p: p, tagged: true}
	oracle := func(f string, a ...any) {
		st.hit("oracle-failure")
		if len(st.Oracle) < 40 {
			st.Oracle = append(st.Oracle, fmt.Sprintf(f, a...))
		}
	}
	ctx := context.Background()
	opNames := map[string]encrypt.FilterOperation{"none": encrypt.NoOperation, "redact": encrypt.RedactOperation, "encrypt": encrypt.EncryptOperation, "hmac": encrypt.HmacSha256Operation}
	for c := 0; c < *n; c++ {
		st.Cases++
		st.Ops++
		h.bad, h.mapLeak, h.pubLost = "", "", ""
		t := h.genTagMap(2 + p.intn(3)) // maps nested up to five deep: pointers of up to five segments
		tags := h.genTags(t)
		w := []string{"1", "1", "1", "1", "1", "1", "1", "N"}[p.intn(8)]
		ovTok := "-"
		var ov map[encrypt.DataClassification]encrypt.FilterOperation
		if p.chance(1, 3) {
			ov = map[encrypt.DataClassification]encrypt.FilterOperation{}
			var parts []string
			for _, cls := range []string{"public", "sensitive", "secret"} {
				if p.chance(1, 2) {
					opn := []string{"none", "redact", "encrypt", "hmac"}[p.intn(4)]
					ov[encrypt.DataClassification(cls)] = opNames[opn]
					parts = append(parts, hx([]byte(cls))+"="+opn)
				}
			}
			if len(parts) > 0 {
				ovTok = strings.Join(parts, ",")
			}
		}
		f := &encrypt.Filter{HmacSalt: []byte("salt1"), HmacInfo: []byte("info1"), FilterOperationOverrides: ov}
		if w != "N" {
			f.Wrapper = h.enc.wrapper(1)
		}
		curTreeTags = nil
		var tagToks []string
		for _, ts := range tags {
			curTreeTags = append(curTreeTags, encrypt.PointerTag{Pointer: ts.pointer(), Classification: encrypt.DataClassification(ts.cls), Filter: encrypt.FilterOperation(ts.op)})
			tagToks = append(tagToks, fmt.Sprint(len(ts.path)))
			for _, k := range ts.path {
				tagToks = append(tagToks, fmt.Sprint(k))
			}
			hexOrN := func(s string) string {
				if s == "" {
					return "N"
				}
				return hx([]byte(s))
			}
			tagToks = append(tagToks, hexOrN(ts.cls), hexOrN(ts.op))
		}
		payload := treeTagMap(t.build().Interface().(map[string]interface{}))
		before, _ := json.Marshal(payload)
		e := &eventlogger.Event{Type: "t", Payload: payload, Formatted: map[string][]byte{}}
		got, err := func() (g *eventlogger.Event, er error) {
			defer func() {
				if r := recover(); r != nil {
					er = fmt.Errorf("PANIC: %v", r)
				}
			}()
			return f.Process(ctx, e)
		}()
		after, _ := json.Marshal(payload)
		line := strings.TrimSpace(fmt.Sprintf("tagged %s %s %d %s", w, ovTok, len(tags), strings.Join(tagToks, " "))) + " " + strings.Join(t.toks(), " ")
		if string(before) != string(after) {
			oracle("C10 Process modified the Taggable map it was given || case: %s", line)
		}
		res := ""
		switch {
		case err != nil:
			res = "error"
			if strings.HasPrefix(err.Error(), "PANIC") {
				oracle("C09 Process panicked: %v || case: %s", err, line)
			}
			st.hit("tagged:error")
		case got == e:
			res = "same"
			st.hit("tagged:same")
		case got == nil:
			res = "nothing"
			oracle("C09 nothing forwarded and no error || case: %s", line)
		default:
			outToks := h.show(t, reflect.ValueOf(got.Payload))
			res = "filtered " + strings.Join(outToks, " ")
			st.hit("tagged:filtered")
			if h.bad != "" {
				oracle("C10 the forwarded Taggable map does not have the input's shape (%s) || case: %s", h.bad, line)
			}
			if reflect.TypeOf(got.Payload) != reflect.TypeOf(payload) {
				oracle("C10 dynamic type changed: %T came out as %T || case: %s", payload, got.Payload, line)
			}
			// every string that sits in the maps (reached through maps and pointers to maps only): named by
			// no tag -> redacted; named by a tag classifying it public -> preserved
			var walk func(t *tv, v reflect.Value, path string)
			walk = func(t *tv, v reflect.Value, path string) {
				for v.IsValid() && (v.Kind() == reflect.Interface || v.Kind() == reflect.Ptr) {
					v = v.Elem()
				}
				if !v.IsValid() || v.Kind() != reflect.Map {
					return
				}
				for _, it := range t.items {
					pth := fmt.Sprintf("%s/k%d", path, it.key)
					e := v.MapIndex(reflect.ValueOf(fmt.Sprintf("k%d", it.key)))
					if sub := mapOf(it.v); sub != nil {
						walk(sub, e, pth)
						continue
					}
					if it.v.kind != "s" || !e.IsValid() {
						continue
					}
					for e.Kind() == reflect.Interface {
						e = e.Elem()
					}
					if e.Kind() != reflect.String {
						continue
					}
					var tg *tagSpec
					covered := false
					for i := range tags {
						if tags[i].pointer() == pth {
							tg = &tags[i]
						}
						if strings.HasPrefix(pth, tags[i].pointer()+"/") {
							covered = true // a tag names a whole map above this value
						}
					}
					cl := h.leafOut(e.String(), it.v.m)
					switch {
					case tg == nil && !covered && cl != "R":
						oracle("C09 the string at %s of a Taggable map is named by no pointer tag, so it is unclassified and must be redacted; it came out as %s || case: %s", pth, cl, line)
					case tg != nil && tg.cls == "public" && cl != fmt.Sprintf("p%d", it.v.m):
						oracle("C10 the string at %s is classified public by its pointer tag but was not preserved: it came out as %s || case: %s", pth, cl, line)
					}
				}
			}
			walk(t, reflect.ValueOf(got.Payload), "")
		}
		st.hit(fmt.Sprintf("tags:%d", len(tags)))
		for _, ts := range tags {
			st.hit(fmt.Sprintf("tag-depth:%d", len(ts.path)))
		}
		o.emit(line, res)
		st.Distinct++
	}
	o.close()
	st.write(*out)
	if len(st.Oracle) > 0 {
		fmt.Printf("ORACLE-FAILURES %d\n", len(st.Oracle))
		for i, m := range st.Oracle {
			if i < 5 {
				fmt.Println(m)
			}
		}
	}
	fmt.Printf("cases=%d ops=%d distinct_nontrivial=%d\n", st.Cases, st.Ops, st.Distinct)
}
