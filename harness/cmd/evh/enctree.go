package main

// Correspondence harness for M7t EncryptTree: nested payloads (structs, pointers, interface-held
// values, slices, untagged maps, []string / [][]byte, nil pointers) built at run time with reflect,
// through the real encrypt.Filter; the forwarded value is walked in parallel with the input tree and
// printed in the model's prefix notation, every protected leaf identified by independent decryption
// / recomputation.  Go-side oracles: C09 (no protected plaintext where every struct is addressable),
// C10 (the input is untouched, the shape is preserved).

import (
	"context"
	"encoding/json"
	"flag"
	"fmt"
	"reflect"
	"strings"

	"github.com/hashicorp/eventlogger"
	"github.com/hashicorp/eventlogger/filters/encrypt"
	wrapping "github.com/hashicorp/go-kms-wrapping/v2"
)

type tItem struct {
	tag string // struct fields: the class tag ("" = none)
	has bool   // whether there is a tag
	key int    // map entries
	v   *tv
}

type tv struct {
	kind  string // s b bn o S B N P I T L M A (A: []interface{} with elements of any shape)
	m     int
	ms    []int // S / B elements, -1 = nil []byte
	child *tv
	items []tItem
}

var (
	tString = reflect.TypeOf("")
	tBytes  = reflect.TypeOf([]byte(nil))
	tInt    = reflect.TypeOf(0)
	tStrs   = reflect.TypeOf([]string(nil))
	tBss    = reflect.TypeOf([][]byte(nil))
	tIface  = reflect.TypeOf((*interface{})(nil)).Elem()
	tMap    = reflect.TypeOf(map[string]interface{}(nil))
)

// plaintexts: some look like the filter's own outputs (a value is protected because of where it is,
// never left alone because of what it looks like)
func plainOf(m int) string {
	switch m % 6 {
	case 1:
		return fmt.Sprintf("encrypted:pt%dx", m)
	case 4:
		return fmt.Sprintf("hmac-sha256:pt%dx", m)
	}
	return fmt.Sprintf("pt-%d-x", m)
}

// typeOf: the static Go type a value of this shape is declared with
func (t *tv) typeOf() reflect.Type {
	switch t.kind {
	case "s":
		return tString
	case "b", "bn":
		return tBytes
	case "o":
		return tInt
	case "S":
		return tStrs
	case "B":
		return tBss
	case "N", "I":
		return tIface
	case "P":
		return reflect.PointerTo(t.child.typeOf())
	case "T":
		var sf []reflect.StructField
		for i, it := range t.items {
			st := reflect.StructTag("")
			if it.has {
				st = reflect.StructTag(fmt.Sprintf(`class:"%s"`, it.tag))
			}
			sf = append(sf, reflect.StructField{Name: fmt.Sprintf("F%d", i), Type: it.v.typeOf(), Tag: st})
		}
		return reflect.StructOf(sf)
	case "L":
		return reflect.SliceOf(t.child.typeOf()) // child: the element template
	case "M":
		return tMap
	case "A":
		return reflect.SliceOf(tIface)
	}
	panic("kind " + t.kind)
}

func (t *tv) build() reflect.Value {
	switch t.kind {
	case "s":
		return reflect.ValueOf(plainOf(t.m))
	case "b":
		return reflect.ValueOf([]byte(plainOf(t.m)))
	case "bn":
		return reflect.Zero(tBytes)
	case "o":
		return reflect.ValueOf(7)
	case "S":
		s := make([]string, 0, len(t.ms))
		for _, m := range t.ms {
			s = append(s, plainOf(m))
		}
		return reflect.ValueOf(s)
	case "B":
		s := make([][]byte, 0, len(t.ms))
		for _, m := range t.ms {
			if m < 0 {
				s = append(s, nil)
			} else {
				s = append(s, []byte(plainOf(m)))
			}
		}
		return reflect.ValueOf(s)
	case "N":
		return reflect.Zero(tIface)
	case "I":
		v := reflect.New(tIface).Elem()
		v.Set(t.child.build())
		return v
	case "P":
		p := reflect.New(t.child.typeOf())
		p.Elem().Set(t.child.build())
		return p
	case "T":
		v := reflect.New(t.typeOf()).Elem()
		for i, it := range t.items {
			v.Field(i).Set(it.v.build())
		}
		return v
	case "L":
		s := reflect.MakeSlice(t.typeOf(), 0, len(t.items))
		for _, it := range t.items {
			if it.v.kind == "N" {
				s = reflect.Append(s, reflect.Zero(t.child.typeOf()))
			} else {
				s = reflect.Append(s, it.v.build())
			}
		}
		return s
	case "A":
		s := reflect.MakeSlice(reflect.SliceOf(tIface), 0, len(t.items))
		for _, it := range t.items {
			e := reflect.New(tIface).Elem()
			if it.v.kind != "N" {
				e.Set(it.v.build())
			}
			s = reflect.Append(s, e)
		}
		return s
	case "M":
		m := reflect.MakeMap(tMap)
		for _, it := range t.items {
			v := reflect.New(tIface).Elem()
			if it.v.kind != "N" {
				v.Set(it.v.build())
			}
			m.SetMapIndex(reflect.ValueOf(fmt.Sprintf("k%d", it.key)), v)
		}
		return m
	}
	panic("kind " + t.kind)
}

// toks: the input in the model's prefix notation
func (t *tv) toks() []string {
	switch t.kind {
	case "s", "b":
		return []string{t.kind, fmt.Sprint(t.m)}
	case "bn", "o", "N":
		return []string{t.kind}
	case "S", "B":
		r := []string{t.kind, fmt.Sprint(len(t.ms))}
		for _, m := range t.ms {
			if m < 0 {
				r = append(r, "N")
			} else {
				r = append(r, fmt.Sprint(m))
			}
		}
		return r
	case "P", "I":
		return append([]string{t.kind}, t.child.toks()...)
	}
	r := []string{t.kind, fmt.Sprint(len(t.items))}
	for _, it := range t.items {
		switch t.kind {
		case "T":
			tg := "N"
			if it.has {
				tg = hx([]byte(it.tag))
			}
			r = append(r, "E", tg)
		case "M":
			r = append(r, fmt.Sprint(it.key))
		}
		if t.kind == "A" && it.v.kind != "N" {
			r = append(r, "I") // the element is an interface holding the value
		}
		r = append(r, it.v.toks()...)
	}
	return r
}

// plains: every plaintext id in the tree
func (t *tv) plains(acc *[]int) {
	switch t.kind {
	case "s", "b":
		*acc = append(*acc, t.m)
	case "S", "B":
		for _, m := range t.ms {
			if m >= 0 {
				*acc = append(*acc, m)
			}
		}
	case "P", "I":
		t.child.plains(acc)
	default:
		for _, it := range t.items {
			it.v.plains(acc)
		}
	}
}

type treeHarness struct {
	enc     *encHarness
	ctr     int
	p       *prng
	bad     string
	mapLeak string // an unclassified (untagged map) value that did not come out redacted
	pubLost string // a public-classified value that was not preserved
	tagged  bool   // the maps walked belong to a Taggable map: their values may be named by pointer tags
}

func (h *treeHarness) leafOut(v string, m int) string {
	return h.enc.canonLeaf(v, plainOf(m), m, nil, map[string][]byte{"1": []byte("salt1")}, map[string][]byte{"1": []byte("info1")})
}

// show walks the output value in parallel with the input tree
func (h *treeHarness) show(t *tv, v reflect.Value) []string {
	fail := func(why string) []string {
		if h.bad == "" {
			h.bad = why
		}
		return []string{"?" + why}
	}
	for v.IsValid() && v.Kind() == reflect.Interface && t.kind != "N" && t.kind != "I" {
		v = v.Elem()
	}
	switch t.kind {
	case "s":
		if !v.IsValid() || v.Kind() != reflect.String {
			return fail("string expected")
		}
		return []string{h.leafOut(v.String(), t.m)}
	case "b":
		if !v.IsValid() || v.Type() != tBytes {
			return fail("[]byte expected")
		}
		if v.IsNil() {
			return []string{"nil"}
		}
		return []string{h.leafOut(string(v.Bytes()), t.m)}
	case "bn":
		if !v.IsValid() || v.Type() != tBytes || !v.IsNil() {
			return fail("nil []byte expected")
		}
		return []string{"nil"}
	case "o":
		if !v.IsValid() || v.Kind() != reflect.Int || v.Int() != 7 {
			return fail("int 7 expected")
		}
		return []string{"o"}
	case "S", "B":
		if !v.IsValid() || v.Kind() != reflect.Slice || v.Len() != len(t.ms) {
			return fail("slice length")
		}
		r := []string{"S", fmt.Sprint(len(t.ms))}
		for i, m := range t.ms {
			e := v.Index(i)
			switch {
			case t.kind == "S":
				r = append(r, h.leafOut(e.String(), m))
			case e.IsNil():
				r = append(r, "nil")
			case m < 0:
				return fail("nil element became non-nil")
			default:
				r = append(r, h.leafOut(string(e.Bytes()), m))
			}
		}
		return r
	case "N":
		if v.IsValid() && !((v.Kind() == reflect.Interface || v.Kind() == reflect.Ptr) && v.IsNil()) {
			return fail("nil expected")
		}
		return []string{"N"}
	case "I":
		if !v.IsValid() || v.Kind() != reflect.Interface || v.IsNil() {
			return fail("interface expected")
		}
		return append([]string{"I"}, h.show(t.child, v.Elem())...)
	case "P":
		if !v.IsValid() || v.Kind() != reflect.Ptr || v.IsNil() {
			return fail("pointer expected")
		}
		return append([]string{"P"}, h.show(t.child, v.Elem())...)
	case "T":
		if !v.IsValid() || v.Kind() != reflect.Struct || v.NumField() != len(t.items) {
			return fail("struct expected")
		}
		r := []string{"T", fmt.Sprint(len(t.items))}
		for i, it := range t.items {
			r = append(r, "E")
			sub := h.show(it.v, v.Field(i))
			// a value classified public is preserved, whatever the overrides say about the class
			if it.has && (it.tag == "public" || strings.HasPrefix(it.tag, "public,")) && h.pubLost == "" {
				switch it.v.kind {
				case "s", "b":
					if sub[0] != fmt.Sprintf("p%d", it.v.m) {
						h.pubLost = fmt.Sprintf("field F%d tagged %q came out as %s", i, it.tag, sub[0])
					}
				case "S", "B":
					for j, x := range sub[2:] {
						if it.v.ms[j] >= 0 && x != fmt.Sprintf("p%d", it.v.ms[j]) {
							h.pubLost = fmt.Sprintf("an element of field F%d tagged %q came out as %s", i, it.tag, x)
						}
					}
				}
			}
			r = append(r, sub...)
		}
		return r
	case "L":
		if !v.IsValid() || v.Kind() != reflect.Slice || v.Len() != len(t.items) {
			return fail("slice expected")
		}
		r := []string{"L", fmt.Sprint(len(t.items))}
		for i, it := range t.items {
			r = append(r, h.show(it.v, v.Index(i))...)
		}
		return r
	case "A":
		if !v.IsValid() || v.Kind() != reflect.Slice || v.Type().Elem().Kind() != reflect.Interface || v.Len() != len(t.items) {
			return fail("slice of interfaces expected")
		}
		r := []string{"L", fmt.Sprint(len(t.items))}
		for i, it := range t.items {
			e := v.Index(i)
			if it.v.kind == "N" {
				if !e.IsNil() {
					return fail("nil element became non-nil")
				}
				r = append(r, "N")
				continue
			}
			if e.IsNil() {
				return fail("element became nil")
			}
			r = append(r, "I")
			r = append(r, h.show(it.v, e.Elem())...)
		}
		return r
	case "M":
		if !v.IsValid() || v.Kind() != reflect.Map || v.Len() != len(t.items) {
			return fail("map expected")
		}
		r := []string{"M", fmt.Sprint(len(t.items))}
		for _, it := range t.items {
			e := v.MapIndex(reflect.ValueOf(fmt.Sprintf("k%d", it.key)))
			if !e.IsValid() {
				return fail("map key lost")
			}
			r = append(r, fmt.Sprint(it.key))
			sub := h.show(it.v, e)
			// unclassified data is always redacted, whatever the overrides say
			switch it.v.kind {
			case "s", "b":
				if sub[0] != "R" && h.mapLeak == "" && !h.tagged {
					h.mapLeak = fmt.Sprintf("the value under key k%d of an untagged map came out as %s", it.key, sub[0])
				}
			case "S", "B":
				for _, x := range sub[2:] {
					if x != "R" && x != "nil" && h.mapLeak == "" && !h.tagged {
						h.mapLeak = fmt.Sprintf("an element of the slice under key k%d of an untagged map came out as %s", it.key, x)
					}
				}
			}
			r = append(r, sub...)
		}
		return r
	}
	return fail("kind")
}

var treeTags = []string{"public", "sensitive", "secret", "sensitive,redact", "sensitive,hmac-sha256", "secret,encrypt", "Secret", "bogus", "public,redact", "sensitive,nonsense", "secret,"}

func (h *treeHarness) fresh() int { h.ctr++; return h.ctr }

// gen: a random value of the shape grammar; `under` is the container the value sits in ("" payload,
// T struct field, L slice element template, M map value, I interface)
func (h *treeHarness) gen(depth int, under string) *tv {
	p := h.p
	leaf := func() *tv {
		switch p.intn(7) {
		case 0, 1:
			return &tv{kind: "s", m: h.fresh()}
		case 2:
			return &tv{kind: "b", m: h.fresh()}
		case 3:
			if under == "T" {
				return &tv{kind: "bn"}
			}
			return &tv{kind: "o"}
		case 4:
			t := &tv{kind: "S"}
			for i := p.intn(3); i > 0; i-- {
				t.ms = append(t.ms, h.fresh())
			}
			return t
		case 5:
			t := &tv{kind: "B"}
			for i := p.intn(3); i > 0; i-- {
				if p.chance(1, 4) {
					t.ms = append(t.ms, -1)
				} else {
					t.ms = append(t.ms, h.fresh())
				}
			}
			return t
		}
		return &tv{kind: "o"}
	}
	if depth <= 0 {
		return leaf()
	}
	switch r := p.intn(12); {
	case r < 3:
		return leaf()
	case r < 6: // struct
		t := &tv{kind: "T"}
		for i := 1 + p.intn(4); i > 0; i-- {
			it := tItem{v: h.gen(depth-1, "T")}
			if !p.chance(1, 6) {
				it.has, it.tag = true, treeTags[p.intn(len(treeTags))]
			}
			t.items = append(t.items, it)
		}
		t.items = append(t.items, tItem{v: &tv{kind: "o"}}) // never the zero value
		return t
	case r < 8: // pointer to a struct / map / slice / string
		c := h.gen(depth-1, "P")
		for c.kind == "P" || c.kind == "N" || c.kind == "I" || c.kind == "bn" || c.kind == "o" || c.kind == "b" || c.kind == "S" || c.kind == "B" {
			c = h.gen(depth-1, "P")
		}
		return &tv{kind: "P", child: c}
	case r < 9: // interface-held value (struct fields only)
		if under != "T" {
			return leaf()
		}
		if p.chance(1, 5) {
			return &tv{kind: "N"}
		}
		c := h.gen(depth-1, "I")
		for c.kind == "I" || c.kind == "N" || c.kind == "bn" {
			c = h.gen(depth-1, "I")
		}
		return &tv{kind: "I", child: c}
	case r < 11: // slice of one element shape (struct, pointer to struct, map, inner slice), or of interfaces
		if p.chance(1, 3) {
			t := &tv{kind: "A"}
			for i := p.intn(4); i > 0; i-- {
				var e *tv
				switch p.intn(8) {
				case 0:
					e = &tv{kind: "s", m: h.fresh()}
				case 1:
					e = h.genStruct(depth - 1) // a struct held by value
				case 2:
					e = &tv{kind: "P", child: h.genStruct(depth - 1)}
				case 3:
					e = &tv{kind: "N"}
				case 4:
					e = &tv{kind: "M", items: []tItem{{key: 1, v: &tv{kind: "s", m: h.fresh()}}}}
				case 5:
					e = &tv{kind: "S", ms: []int{h.fresh()}}
				case 6:
					e = &tv{kind: "b", m: h.fresh()}
				default:
					e = &tv{kind: "o"}
				}
				t.items = append(t.items, tItem{v: e})
			}
			return t
		}
		var tmpl *tv
		switch p.intn(7) {
		case 5:
			tmpl = &tv{kind: "S", ms: []int{0}} // [][]string
		case 6:
			tmpl = &tv{kind: "B", ms: []int{0}} // [][][]byte
		case 0:
			tmpl = h.gen(depth-1, "L")
			for tmpl.kind != "T" {
				tmpl = h.genStruct(depth - 1)
			}
		case 1:
			tmpl = &tv{kind: "P", child: h.genStruct(depth - 1)}
		case 2:
			tmpl = &tv{kind: "M", items: []tItem{{key: 1, v: &tv{kind: "s", m: 0}}}}
		case 3:
			tmpl = &tv{kind: "L", child: h.genStruct(depth - 2), items: nil}
		default:
			tmpl = h.genStruct(depth - 1)
		}
		t := &tv{kind: "L", child: tmpl}
		for i := p.intn(3); i > 0; i-- {
			if tmpl.kind == "P" && p.chance(1, 5) {
				t.items = append(t.items, tItem{v: &tv{kind: "N"}})
				continue
			}
			t.items = append(t.items, tItem{v: h.cloneFresh(tmpl)})
		}
		return t
	default: // untagged map
		t := &tv{kind: "M"}
		for i := 1 + p.intn(3); i > 0; i-- {
			var v *tv
			switch p.intn(6) {
			case 0:
				v = h.genStruct(depth - 1)
			case 1:
				v = &tv{kind: "P", child: h.genStruct(depth - 1)}
			case 2:
				v = h.gen(depth-1, "M")
				for v.kind == "I" || v.kind == "bn" {
					v = leaf()
				}
			case 3:
				// a pointer to a slice: of strings, of structs, of interfaces
				var sl *tv
				switch p.intn(3) {
				case 0:
					sl = &tv{kind: "S", ms: []int{h.fresh(), h.fresh()}}
				case 1:
					sl = &tv{kind: "L", child: h.genStruct(0)}
					sl.items = append(sl.items, tItem{v: h.cloneFresh(sl.child)})
				default:
					sl = &tv{kind: "A", items: []tItem{{v: &tv{kind: "s", m: h.fresh()}}, {v: h.genStruct(0)}}}
				}
				v = &tv{kind: "P", child: sl}
			default:
				v = leaf()
				for v.kind == "bn" {
					v = leaf()
				}
			}
			t.items = append(t.items, tItem{key: len(t.items) + 1, v: v})
		}
		return t
	}
}

func (h *treeHarness) genStruct(depth int) *tv {
	t := &tv{kind: "T"}
	for i := 1 + h.p.intn(3); i > 0; i-- {
		d := depth - 1
		if d < 0 {
			d = 0
		}
		it := tItem{v: h.gen(d, "T")}
		if !h.p.chance(1, 6) {
			it.has, it.tag = true, treeTags[h.p.intn(len(treeTags))]
		}
		t.items = append(t.items, it)
	}
	t.items = append(t.items, tItem{v: &tv{kind: "o"}})
	return t
}

// cloneFresh: the same shape (same Go type) with fresh plaintext ids
func (h *treeHarness) cloneFresh(t *tv) *tv {
	c := &tv{kind: t.kind}
	switch t.kind {
	case "s", "b":
		c.m = h.fresh()
	case "S", "B":
		for _, m := range t.ms {
			if m < 0 {
				c.ms = append(c.ms, -1)
			} else {
				c.ms = append(c.ms, h.fresh())
			}
		}
	}
	if t.child != nil {
		c.child = h.cloneFresh(t.child)
	}
	for _, it := range t.items {
		c.items = append(c.items, tItem{tag: it.tag, has: it.has, key: it.key, v: h.cloneFresh(it.v)})
	}
	if t.kind == "L" && len(t.items) == 0 && h.p.chance(1, 2) && t.child != nil {
		c.items = append(c.items, tItem{v: h.cloneFresh(t.child)})
	}
	return c
}

// addressable: the payload is not a struct by value: exactly the trees on which nothing protected may
// survive
func (t *tv) addressable(top bool) bool {
	switch t.kind {
	case "T":
		if top {
			return false
		}
	case "I":
		// a value held directly in an interface field is filtered on a settable copy (fix 663fde8)
	case "L":
		// elements that are not structs / pointers / maps / slices are not visited at all
	}
	if t.child != nil && !t.child.addressable(false) {
		return false
	}
	for _, it := range t.items {
		if !it.v.addressable(false) {
			return false
		}
	}
	return true
}

func enctreeMain(args []string) {
	fs := flag.NewFlagSet("enctree", flag.ExitOnError)
	seed := fs.Uint64("seed", 1, "seed")
	n := fs.Int("n", 3000, "cases")
	out := fs.String("out", "", "output dir")
	_ = fs.String("corpus", "", "unused")
	fs.Parse(args)
	st := newStats()
	o := openOut(*out)
	p := newPrng(*seed)
	h := &treeHarness{enc: &encHarness{wrappers: map[int]wrapping.Wrapper{}, st: st}, p: p}
	oracle := func(f string, a ...any) {
		st.hit("oracle-failure")
		if len(st.Oracle) < 40 {
			st.Oracle = append(st.Oracle, fmt.Sprintf(f, a...))
		}
	}
	ctx := context.Background()
	for c := 0; c < *n; c++ {
		st.Cases++
		st.Ops++
		h.bad, h.mapLeak, h.pubLost = "", "", ""
		// payload: pointer to struct mostly; also struct by value, slices, maps, pointers to those, strings
		var t *tv
		switch p.intn(10) {
		case 0:
			t = h.genStruct(2) // struct BY VALUE (known finding F6c when it holds protected fields)
		case 1:
			t = h.gen(3, "")
			for t.kind == "bn" || t.kind == "o" || t.kind == "N" || t.kind == "I" || t.kind == "b" || t.kind == "s" {
				t = h.gen(3, "")
			}
		case 2:
			t = &tv{kind: "P", child: &tv{kind: "s", m: h.fresh()}}
		default:
			t = &tv{kind: "P", child: h.genStruct(3)}
		}
		w := []string{"1", "1", "1", "N"}[p.intn(4)]
		ovTok := "-"
		var ov map[encrypt.DataClassification]encrypt.FilterOperation
		if p.chance(1, 3) {
			ov = map[encrypt.DataClassification]encrypt.FilterOperation{}
			var parts []string
			for _, cls := range []string{"public", "sensitive", "secret"} {
				if p.chance(1, 2) {
					opn := []string{"none", "redact", "encrypt", "hmac"}[p.intn(4)]
					ov[encrypt.DataClassification(cls)] = map[string]encrypt.FilterOperation{"none": encrypt.NoOperation, "redact": encrypt.RedactOperation, "encrypt": encrypt.EncryptOperation, "hmac": encrypt.HmacSha256Operation}[opn]
					parts = append(parts, hx([]byte(cls))+"="+opn)
				}
			}
			if len(parts) > 0 {
				ovTok = strings.Join(parts, ",")
			}
		}
		f := &encrypt.Filter{HmacSalt: []byte("salt1"), HmacInfo: []byte("info1"), FilterOperationOverrides: ov}
		if w != "N" {
			f.Wrapper = h.enc.wrapper(1)
		}
		payload := t.build().Interface()
		before, _ := json.Marshal(payload)
		e := &eventlogger.Event{Type: "t", Payload: payload, Formatted: map[string][]byte{}}
		got, err := func() (g *eventlogger.Event, er error) {
			defer func() {
				if r := recover(); r != nil {
					er = fmt.Errorf("PANIC: %v", r)
				}
			}()
			return f.Process(ctx, e)
		}()
		after, _ := json.Marshal(payload)
		line := "tree " + w + " " + ovTok + " " + strings.Join(t.toks(), " ")
		// with every operation overridden to none the event is forwarded unchanged (the very same event)
		eff := map[encrypt.DataClassification]encrypt.FilterOperation{encrypt.PublicClassification: encrypt.NoOperation, encrypt.SensitiveClassification: encrypt.EncryptOperation, encrypt.SecretClassification: encrypt.RedactOperation}
		for k, v := range ov {
			eff[k] = v
		}
		allNone := true
		for _, v := range eff {
			if v != encrypt.NoOperation {
				allNone = false
			}
		}
		if allNone && (err != nil || got != e) {
			oracle("C10 every operation is overridden to none, but Process did not forward the event it was given unchanged (err=%v, same event=%v) || case: %s", err, got == e, line)
		}
		res := ""
		switch {
		case err != nil:
			res = "error"
			if strings.HasPrefix(err.Error(), "PANIC") {
				oracle("C09 Process panicked: %v || case: %s", err, line)
			}
			st.hit("tree:error")
		case got == e:
			res = "same"
			st.hit("tree:same")
		case got == nil:
			res = "nothing"
			oracle("C09 nothing forwarded and no error || case: %s", line)
		default:
			outToks := h.show(t, reflect.ValueOf(got.Payload))
			res = "filtered " + strings.Join(outToks, " ")
			st.hit("tree:filtered")
			if h.bad != "" {
				oracle("C10 the forwarded payload does not have the input's shape (%s) || case: %s", h.bad, line)
			}
			if h.pubLost != "" {
				oracle("C10 a public-classified value was not preserved: %s || case: %s", h.pubLost, line)
			}
			if h.mapLeak != "" {
				oracle("C09 unclassified data must be redacted: %s || case: %s", h.mapLeak, line)
			}
			if reflect.TypeOf(got.Payload) != reflect.TypeOf(payload) {
				oracle("C10 dynamic type changed || case: %s", line)
			}
			// C09 on trees where everything is addressable: a plaintext survives only under a keep action;
			// which leaves those are is the model's business (correspondence); here: nothing at all may
			// survive when no override is in play and every tag is a protecting one -- checked by the model.
			if string(before) != string(after) {
				oracle("C10 Process modified the payload it was given || case: %s", line)
			}
		}
		if string(before) != string(after) && res != "filtered" {
			oracle("C10 Process modified the payload it was given || case: %s", line)
		}
		if t.addressable(true) {
			st.hit("tree:addressable")
		} else {
			st.hit("tree:has-unaddressable-values")
		}
		st.hit("payload:" + t.kind)
		o.emit(line, res)
		st.Distinct++
	}
	o.close()
	st.write(*out)
	if len(st.Oracle) > 0 {
		fmt.Printf("ORACLE-FAILURES %d\n", len(st.Oracle))
		for i, m := range st.Oracle {
			if i < 5 {
				fmt.Println(m)
			}
		}
	}
	fmt.Printf("cases=%d ops=%d distinct_nontrivial=%d\n", st.Cases, st.Ops, st.Distinct)
}
