package main

// Correspondence harness for M8b CloudEvents: all payload kinds (plain, ID, Data, both) x formats
// {unset, json, text, invalid} x schema set/unset/empty x source set/unset/empty x signer absent /
// succeeding / failing x listed / unlisted types x predicate outcomes; byte-for-byte comparison with
// the model, and the C18 oracles (parse back, decode `serialized`, check the signer's input).

import (
	"bytes"
	"context"
	"encoding/base64"
	"encoding/json"
	"errors"
	"flag"
	"fmt"
	"net/url"
	"reflect"
	"strings"
	"sync"
	"time"

	"github.com/hashicorp/eventlogger"
	"github.com/hashicorp/eventlogger/formatter_filters/cloudevents"
)

type cePlain struct{ V interface{} }
type ceID struct {
	V  interface{}
	id string
}
type ceData struct{ d interface{} }
type ceBoth struct {
	d  interface{}
	id string
}

func (p *ceID) ID() string                      { return p.id }
func (p *ceData) Data() interface{}             { return p.d }
func (p *ceBoth) ID() string                    { return p.id }
func (p *ceBoth) Data() interface{}             { return p.d }
func (p *cePlain) MarshalJSON() ([]byte, error) { return json.Marshal(p.V) }
func (p *ceID) MarshalJSON() ([]byte, error)    { return json.Marshal(p.V) }

func ceSigner(fail bool, record *[]byte) cloudevents.Signer {
	return func(ctx context.Context, b []byte) (string, error) {
		*record = append([]byte(nil), b...)
		if fail {
			return "", errors.New("signer failed")
		}
		sum := 0
		for _, x := range b {
			sum += int(x)
		}
		// an arbitrary string: a control character, DEL, a quote, a backslash, HTML characters: the stored document is JSON all the same and carries the signer's result
		return "s\x1f\x7f\"\\<>&" + fmt.Sprintf("sum%dlen%d", sum%65521, len(b)), nil
	}
}

// ceVerify is a consumer's check of a stored cloudevents-json document, written with the standard library:
// parse, take serialized / serialized_hmac, base64url-decode, ask the signer again
func ceVerify(stored []byte) string {
	var doc map[string]json.RawMessage
	if json.Unmarshal(stored, &doc) != nil {
		return "malformed"
	}
	rs, okS := doc["serialized"]
	rm, okM := doc["serialized_hmac"]
	if !okS && !okM {
		return "notSigned"
	}
	var ser, mac string
	if !okS || !okM || json.Unmarshal(rs, &ser) != nil || json.Unmarshal(rm, &mac) != nil {
		return "malformed"
	}
	u, err := base64.RawURLEncoding.Strict().DecodeString(ser)
	if err != nil {
		return "malformed"
	}
	var rec []byte
	want, _ := ceSigner(false, &rec)(context.Background(), u)
	if want == mac {
		return "verified"
	}
	return "mismatch"
}

type ceHold struct {
	e    *eventlogger.Event
	key  string
	want []byte
}

var ceHeld []ceHold

func ceMain(args []string) {
	fs := flag.NewFlagSet("ce", flag.ExitOnError)
	seed := fs.Uint64("seed", 1, "seed")
	n := fs.Int("n", 4000, "cases")
	out := fs.String("out", "", "output dir")
	_ = fs.String("corpus", "", "unused")
	fs.Parse(args)
	st := newStats()
	o := openOut(*out)
	p := newPrng(*seed)
	oracle := func(f string, a ...any) {
		st.hit("oracle-failure")
		if len(st.Oracle) < 40 {
			st.Oracle = append(st.Oracle, fmt.Sprintf(f, a...))
		}
	}
	ctx := context.Background()
	ids := map[string]bool{}
	missingCT := false
	for i := 0; i < *n; i++ {
		st.Cases++
		st.Ops++
		// configuration
		srcK := p.intn(10) // 0 nil, 1 empty, else set
		var src *url.URL
		srcTok := "N"
		switch {
		case srcK == 0:
		case srcK == 1:
			// URLs that render as the empty string: the zero value, and values that are not the zero struct
			src = []*url.URL{{}, {OmitHost: true}, {RawPath: "%2f"}, {RawFragment: "%2f"}, {ForceQuery: false, RawQuery: ""}}[p.intn(5)]
			srcTok = "-"
		default:
			src, _ = url.Parse([]string{"https://example.com/src", "urn:verif:1", "/relative?x=<y>&z"}[p.intn(3)])
			srcTok = hx([]byte(src.String()))
		}
		schK := p.intn(6)
		var sch *url.URL
		schTok := "N"
		switch {
		case schK <= 2:
		case schK == 3:
			sch = []*url.URL{{}, {OmitHost: true}, {RawPath: "%2f"}}[p.intn(3)]
			schTok = "-"
		default:
			sch, _ = url.Parse("https://example.com/schema.json")
			schTok = hx([]byte(sch.String()))
		}
		fmK := []string{"u", "j", "t", "x", "j", "t"}[p.intn(6)]
		format := map[string]cloudevents.Format{"u": "", "j": cloudevents.FormatJSON, "t": cloudevents.FormatText, "x": "bogus"}[fmK]
		sg := []int{0, 1, 1, 2}[p.intn(4)]
		ty := []string{"t", "audit", "we<ird>&\"", "x\xff"}[p.intn(4)]
		var signTypes []string
		if p.chance(2, 3) {
			signTypes = append(signTypes, ty)
		}
		if p.chance(1, 3) {
			signTypes = append(signTypes, "other")
		}
		if p.chance(1, 3) {
			// listed: the type in another case, with a blank, a prefix of it: none of these is the type
			signTypes = append(signTypes, strings.ToUpper(ty), ty+" ", "T", "Audit", "aud")
		}
		var signed []byte
		ff := &cloudevents.FormatterFilter{Source: src, Schema: sch, Format: format, SignEventTypes: signTypes}
		lateSigner := sg != 0 && p.chance(1, 3)
		if sg != 0 && !lateSigner {
			ff.Signer = ceSigner(sg == 2, &signed)
		}
		pred := []string{"absent", "absent", "keep", "drop", "err", "errkeep"}[p.intn(6)]
		switch pred {
		case "keep":
			ff.Predicate = func(context.Context, interface{}) (bool, error) { return true, nil }
		case "drop":
			ff.Predicate = func(context.Context, interface{}) (bool, error) { return false, nil }
		case "err":
			ff.Predicate = func(context.Context, interface{}) (bool, error) { return false, errors.New("predicate failed") }
		case "errkeep": // an error is an error whatever the boolean next to it says
			ff.Predicate = func(context.Context, interface{}) (bool, error) { return true, errors.New("predicate failed") }
		}
		// payload
		val, toks := genVal(p, 2)
		kind := p.intn(5)
		idTok := "N"
		var payload interface{}
		dataKind := "D"
		pid := []string{"id-1", "", "weird\"id"}[p.intn(3)]
		switch kind {
		case 0:
			payload = val // raw value (may be nil)
			if val == nil {
				dataKind = "N"
				toks = nil
			}
		case 1:
			payload = &cePlain{val}
		case 2:
			payload = &ceID{val, pid}
			idTok = hx([]byte(pid))
		case 3:
			payload = &ceData{val}
			if val == nil {
				dataKind = "N"
				toks = nil
			}
		default:
			payload = &ceBoth{val, pid}
			idTok = hx([]byte(pid))
			if val == nil {
				dataKind = "N"
				toks = nil
			}
		}
		created := time.Date(2021, 3, 4, 5, 6, 7, p.intn(2)*p.intn(1e9), time.UTC)
		switch p.intn(8) {
		case 0: // an event that was not stamped by Broker.Send
			created = time.Time{}
			st.hit("time:zero")
		case 1: // another zone, far away years
			created = time.Date(1+p.intn(9998), time.Month(1+p.intn(12)), 1+p.intn(28), p.intn(24), p.intn(60), p.intn(60), p.intn(1e9), time.FixedZone("x", (p.intn(27)-13)*3600+p.intn(2)*1800))
			st.hit("time:zoned")
		}
		ttok, _ := json.Marshal(created)
		if lateSigner {
			// the signer arrives through Rotate after the filter has already processed events without one
			ff.Process(ctx, &eventlogger.Event{Type: eventlogger.EventType(ty), CreatedAt: created, Formatted: map[string][]byte{}, Payload: "warm-up"})
			ff.Rotate(ceSigner(sg == 2, &signed))
			signed = nil
			st.hit("signer-installed-by-rotate")
		}
		e := &eventlogger.Event{Type: eventlogger.EventType(ty), CreatedAt: created, Formatted: map[string][]byte{}, Payload: payload}
		// a quarter of the events arrive already carrying a document under this node's format key (another
		// producer's formatter node in the pipeline or in another pipeline of the type, or the caller): this
		// node stores ITS document, signed by ITS signer
		var stale []byte
		if p.chance(1, 4) {
			stale = []byte("{\"id\":\"other-producer\",\"source\":\"https://other.example/\",\"specversion\":\"1.0\",\"type\":\"other\"}\n")
			if fmK == "t" {
				e.FormattedAs(string(cloudevents.FormatText), stale)
			} else {
				e.FormattedAs(string(cloudevents.FormatJSON), stale)
			}
			st.hit("prefilled-format-entry")
		}
		// one call in six comes with a context that is already done (a request that was given up): whatever
		// the node does then, it does not forward an event of a listed type unsigned
		pctx := ctx
		if p.chance(1, 6) {
			c2, cancel := context.WithCancel(ctx)
			cancel()
			pctx = c2
			st.hit("done-context")
		}
		got, err := ff.Process(pctx, e)
		fname := string(cloudevents.FormatJSON)
		fcode := 2
		if fmK == "t" {
			fname, fcode = string(cloudevents.FormatText), 3
		}
		stored, has := e.Format(fname)
		if stale != nil && err == nil && string(stored) == string(stale) {
			oracle("C18 the event already carried a document of another producer under the format key %s: Process returned no error and left it there (the node's own source, schema and signature are not in what is stored)", fname)
		}
		if stale != nil && err != nil && has && string(stored) == string(stale) {
			has = false // nothing of this node's was stored
		}
		// the document stored for an earlier event does not change when later events are formatted
		for _, hd := range ceHeld {
			if got2, ok2 := hd.e.Format(hd.key); !ok2 || string(got2) != string(hd.want) {
				oracle("C18 the document stored for an earlier event changed after another event was formatted: %.70q -> %.70q", hd.want, got2)
				ceHeld = nil
				break
			}
		}
		if has && err == nil {
			ceHeld = append(ceHeld, ceHold{e, fname, append([]byte(nil), stored...)})
			if len(ceHeld) > 8 {
				ceHeld = ceHeld[1:]
			}
		}
		res := ""
		fresh := "-"
		switch {
		case err != nil:
			es := err.Error()
			switch {
			case strings.Contains(es, "missing source"):
				res = "error E_SOURCE"
			case strings.Contains(es, "not a valid format"):
				res = "error E_FORMAT"
			case strings.Contains(es, "empty schema"):
				res = "error E_SCHEMA"
			case strings.Contains(es, "returned ID() is empty"):
				res = "error E_ID"
			case strings.Contains(es, "unable to sign"):
				res = "error E_SIGN"
			case strings.Contains(es, "unable to filter"):
				res = "error E_PRED"
			case strings.Contains(es, "error formatting"):
				res = "error E_ENCODE"
			default:
				res = "error E_OTHER(" + es + ")"
			}
			if got != nil {
				oracle("C18 an error was returned together with an event")
			}
		case got == nil:
			res = fmt.Sprintf("dropped %d %s", fcode, hx(stored))
		default:
			res = fmt.Sprintf("forward %d %s", fcode, hx(stored))
		}
		listed := false
		for _, s := range signTypes {
			if s == ty {
				listed = true
			}
		}
		// oracles on the stored document
		if has && (err == nil || strings.Contains(res, "E_PRED")) {
			var doc map[string]json.RawMessage
			if jerr := json.Unmarshal(stored, &doc); jerr != nil {
				oracle("C18 stored document is not valid JSON: %v", jerr)
			} else {
				var id, source, spec, typ string
				json.Unmarshal(doc["id"], &id)
				json.Unmarshal(doc["source"], &source)
				json.Unmarshal(doc["specversion"], &spec)
				json.Unmarshal(doc["type"], &typ)
				if id == "" || source == "" || spec != "1.0" || doc["type"] == nil || doc["time"] == nil {
					oracle("C18 non-conformant document: id=%q source=%q specversion=%q", id, source, spec)
				}
				if idTok == "N" {
					fresh = hx([]byte(id))
					if ids[id] {
						oracle("C18 generated id %q is not unique", id)
					}
					ids[id] = true
				}
				wantCT := "application/cloudevents"
				if fmK == "t" {
					wantCT = "text/plain"
					if !strings.Contains(string(stored), "\n  \"id\"") {
						oracle("C18 text format is not indented")
					}
				}
				var ct string
				if _, ok := doc["datacontenttype"]; !ok {
					if !missingCT {
						missingCT = true
						oracle("C18 the CloudEvents attribute datacontenttype is missing: the document carries the misspelt member \"datacontentype\" instead")
					}
					json.Unmarshal(doc["datacontentype"], &ct)
				} else {
					json.Unmarshal(doc["datacontenttype"], &ct)
				}
				if ct != wantCT {
					oracle("C18 content type %q for format %s", ct, fmK)
				}
				// data: the payload, or what its Data() returns; nothing when that is nil
				{
					var wantData interface{} = payload
					if d, ok := payload.(interface{ Data() interface{} }); ok {
						wantData = d.Data()
					}
					rawData, hasData := doc["data"]
					if wantData == nil {
						if hasData {
							oracle("C18 the payload offers no data (nil payload / Data() returned nil) but the document has data=%.60s", rawData)
						}
					} else if wb, merr := json.Marshal(wantData); merr == nil {
						var a, b interface{}
						if !hasData || json.Unmarshal(rawData, &a) != nil || json.Unmarshal(wb, &b) != nil || !reflect.DeepEqual(a, b) {
							oracle("C18 the document's data is %.60s, want the payload (or its Data()) %.60s", rawData, wb)
						}
					}
				}
				if (sch != nil) != (doc["dataschema"] != nil) {
					oracle("C18 dataschema presence wrong")
				}
				_, hasSer := doc["serialized"]
				_, hasMac := doc["serialized_hmac"]
				if sg == 1 && listed {
					var ser, mac string
					json.Unmarshal(doc["serialized"], &ser)
					json.Unmarshal(doc["serialized_hmac"], &mac)
					dec, derr := base64.RawURLEncoding.DecodeString(ser)
					if derr != nil || string(dec) != string(signed) {
						oracle("C18 serialized does not decode to the bytes the signer was given")
					}
					var unsignedDoc map[string]json.RawMessage
					if json.Unmarshal(dec, &unsignedDoc) != nil || unsignedDoc["serialized"] != nil {
						oracle("C18 serialized is not the unsigned document")
					} else {
						for k, v := range unsignedDoc {
							if string(doc[k]) != string(v) && fmK != "t" {
								oracle("C18 signed document differs from the unsigned one in %s", k)
							}
						}
					}
					want, _ := ceSigner(false, new([]byte))(ctx, dec)
					if mac != want {
						oracle("C18 serialized_hmac %q is not the signer's result %q", mac, want)
					}
				} else if hasSer || hasMac {
					oracle("C18 signature fields present although signer=%d listed=%v", sg, listed)
				}
			}
		}
		if sg == 2 && listed && err == nil {
			oracle("C18 the signer failed but the event was forwarded (unsigned)")
		}
		st.hit("res:" + strings.Fields(res)[0] + ":" + strings.Fields(res)[1])
		st.hit(fmt.Sprintf("kind=%d signer=%d listed=%v", kind, sg, listed))
		stt := "-"
		if len(signTypes) > 0 {
			var hs []string
			for _, s := range signTypes {
				hs = append(hs, hx([]byte(s)))
			}
			stt = strings.Join(hs, ",")
		}
		if idTok != "N" {
			fresh = "-"
		}
		op := strings.TrimSpace(fmt.Sprintf("ce 0 %s %s %s %d %s %s %s %s %s %s %s %s", srcTok, schTok, fmK, sg, stt, hx([]byte(ty)), hx(ttok), idTok, fresh, pred, dataKind, strings.Join(toks, " ")))
		o.emit(op, res)
		if err == nil && got != nil && fcode == 3 && sg != 2 {
			// the text format: json.Compact of the stored (indented) document against the model's compact, and
			// the consumer's check on it
			var cb bytes.Buffer
			if json.Compact(&cb, stored) == nil {
				st.hit("compact")
				st.Ops++
				o.emit("compact "+hx(stored), hx(cb.Bytes()))
			}
			doc := stored
			if p.chance(1, 3) && len(doc) > 4 && bytes.Contains(doc, []byte(`"serialized_hmac": `)) {
				doc = append([]byte(nil), stored...)
				i := len(doc) - 5 - p.intn(2) // one of the last two characters of the signature: ...X"\n}\n
				if doc[i] == 'X' {
					doc[i] = 'Y'
				} else {
					doc[i] = 'X'
				}
			}
			verdict := ceVerify(doc)
			st.hit("verifytext:" + verdict)
			st.Ops++
			o.emit("verifytext "+hx(doc), verdict)
			if string(doc) == string(stored) && (verdict == "verified") != (sg == 1 && listed) {
				oracle("C18 a consumer's verification of the stored cloudevents-text document gives %s (signer=%d, type listed=%v)", verdict, sg, listed)
			}
		}
		if err == nil && got != nil && fcode == 2 && sg != 2 {
			// what a consumer does with a cloudevents-json document: the model's verifier (M8v, the subject of
			// C18.signed_verifies) against this one, on the stored document and on one whose signature was altered
			doc := stored
			if p.chance(1, 3) && len(doc) > 4 && bytes.Contains(doc, []byte(`"serialized_hmac":`)) {
				doc = append([]byte(nil), stored...)
				i := len(doc) - 4 // ...X"}\n
				if doc[i] == 'X' {
					doc[i] = 'Y'
				} else {
					doc[i] = 'X'
				}
			}
			verdict := ceVerify(doc)
			st.hit("verify:" + verdict)
			st.Ops++
			o.emit("verify "+hx(doc), verdict)
			if string(doc) == string(stored) && (verdict == "verified") != (sg == 1 && listed) {
				oracle("C18 a consumer's verification of the stored cloudevents-json document gives %s (signer=%d, type listed=%v)", verdict, sg, listed)
			}
		}
		if err == nil {
			st.Distinct++
			if len(st.Samples) < 3 {
				st.Samples = append(st.Samples, op+" => "+res[:min(len(res), 120)])
			}
		}
	}
	// the same document again after the signer was rotated: the signature is the NEW signer's result for the
	// serialized bytes (and a signer that has started to fail is not bypassed)
	for r := 0; r < 12; r++ {
		src, _ := url.Parse("https://verif.example/rot")
		format := cloudevents.FormatJSON
		key := string(cloudevents.FormatJSON)
		if r%2 == 1 {
			format, key = cloudevents.FormatText, string(cloudevents.FormatText)
		}
		mkSigner := func(tag string) cloudevents.Signer {
			return func(ctx context.Context, b []byte) (string, error) {
				if tag == "fail" {
					return "", errors.New("signer unavailable")
				}
				sum := 0
				for _, x := range b {
					sum += int(x)
				}
				return fmt.Sprintf("%s-%d-%d", tag, sum, len(b)), nil
			}
		}
		ff := &cloudevents.FormatterFilter{Source: src, Format: format, Signer: mkSigner("old"), SignEventTypes: []string{"t"}}
		mk := func() *eventlogger.Event {
			return &eventlogger.Event{Type: "t", CreatedAt: time.Unix(1700000000, 0).UTC(), Formatted: map[string][]byte{}, Payload: &ceID{V: map[string]interface{}{"k": r}, id: "same-id"}}
		}
		sigOf := func(e *eventlogger.Event) (string, []byte) {
			b, _ := e.Format(key)
			var doc map[string]json.RawMessage
			json.Unmarshal(b, &doc)
			var ser, mac string
			json.Unmarshal(doc["serialized"], &ser)
			json.Unmarshal(doc["serialized_hmac"], &mac)
			u, _ := base64.RawURLEncoding.DecodeString(ser)
			return mac, u
		}
		e1 := mk()
		if _, err := ff.Process(ctx, e1); err != nil {
			continue
		}
		next := "new"
		if r%3 == 2 {
			next = "fail"
		}
		ff.Rotate(mkSigner(next))
		e2 := mk()
		got2, err2 := ff.Process(ctx, e2)
		st.Ops += 2
		st.hit("rotate-then-same-document")
		if next == "fail" {
			if err2 == nil || got2 != nil {
				oracle("C18 after Rotate to a signer that fails, an event whose document equals the last one signed was forwarded (err=%v): a failing signer means an error and nothing forwarded", err2)
			}
			continue
		}
		if err2 != nil {
			oracle("C18 Process after Rotate failed: %v", err2)
			continue
		}
		mac, u := sigOf(e2)
		want, _ := mkSigner("new")(ctx, u)
		if mac != want {
			oracle("C18 after Rotate(new signer) an event whose unsigned document equals the last one signed before the rotation carries serialized_hmac %q; the signer in force gives %q for the serialized bytes", mac, want)
		}
	}
	// generated ids are fresh and unique, also when several pipelines (or several Sends) format at once
	{
		src, _ := url.Parse("https://verif.example/ids")
		ff := &cloudevents.FormatterFilter{Source: src}
		var mu sync.Mutex
		ids := map[string]int{}
		var wg sync.WaitGroup
		nG, per := 8, 2500
		if *n > 50000 {
			per = 40000
		}
		for g := 0; g < nG; g++ {
			wg.Add(1)
			go func() {
				defer wg.Done()
				local := make([]string, 0, per)
				for k := 0; k < per; k++ {
					e := &eventlogger.Event{Type: "t", CreatedAt: time.Unix(1700000000, 0), Formatted: map[string][]byte{}, Payload: "p"}
					if _, err := ff.Process(ctx, e); err != nil {
						continue
					}
					b, _ := e.Format(string(cloudevents.FormatJSON))
					var doc struct {
						ID string `json:"id"`
					}
					json.Unmarshal(b, &doc)
					local = append(local, doc.ID)
				}
				mu.Lock()
				for _, id := range local {
					ids[id]++
				}
				mu.Unlock()
			}()
		}
		wg.Wait()
		dups, empty := 0, 0
		for id, c := range ids {
			if id == "" {
				empty += c
			} else if c > 1 {
				dups += c - 1
			}
		}
		if dups > 0 || empty > 0 {
			oracle("C18 of %d ids generated by %d goroutines formatting at once %d are repeats of another event's id and %d are empty: generated ids are fresh and unique", nG*per, nG, dups, empty)
		}
		st.hit("concurrent-ids")
		st.Ops += nG * per
	}
	o.close()
	st.write(*out)
	if len(st.Oracle) > 0 {
		fmt.Printf("ORACLE-FAILURES %d\n%s\n", len(st.Oracle), st.Oracle[0])
	}
	fmt.Printf("cases=%d distinct=%d\n", st.Cases, st.Distinct)
}
