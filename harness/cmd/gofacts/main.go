// gofacts regenerates lean/Evl/Generated/*.lean from the CURRENT source of /repo:
//
//	Accesses.lean      every read / write of a struct field of the library's shared types, with the
//	                   locks held there (lock-set discipline: C04, C19, C13, C16)
//	LockSites.lean     every call into user code (Node.Process / Node.Reopen / Closer.Close) reachable
//	                   from a Broker method, with whether Broker.lock is held there (C12)
//	DispatchFacts.lean structural facts of graph.process / doProcess (C01-C03)
//	Decisions.lean     the comparisons of Status.getError and of FileSink.rotate as small expression
//	                   trees (C02, C15)
//
// It uses go/ast + go/types with a stub importer (imported packages are opaque; only the library's
// own declarations need to resolve), walks each function body statement by statement with a
// branch-aware lock state, and inlines same-package callees with the caller's lock set.
package main

import (
	"flag"
	"fmt"
	"go/ast"
	"go/importer"
	"go/parser"
	"go/printer"
	"go/token"
	"go/types"
	"os"
	"path/filepath"
	"sort"
	"strings"
)

type pkgInfo struct {
	name  string // short name used as prefix of locations
	dir   string
	fset  *token.FileSet
	files []*ast.File
	info  *types.Info
	pkg   *types.Package
	funcs map[string]*ast.FuncDecl // key: Recv.Name or Name
}

type stubImporter struct{ def types.Importer }

func (s stubImporter) Import(path string) (*types.Package, error) {
	if p, err := s.def.Import(path); err == nil {
		return p, nil
	}
	parts := strings.Split(path, "/")
	name := parts[len(parts)-1]
	if name == "v2" && len(parts) > 1 {
		name = parts[len(parts)-2]
	}
	p := types.NewPackage(path, name)
	p.MarkComplete()
	return p, nil
}

func loadPkg(name, dir string) *pkgInfo {
	fset := token.NewFileSet()
	pkgs, err := parser.ParseDir(fset, dir, func(fi os.FileInfo) bool {
		n := fi.Name()
		return !strings.HasSuffix(n, "_test.go") && n != "verif_on.go" && n != "testing.go"
	}, parser.ParseComments)
	if err != nil {
		panic(err)
	}
	pi := &pkgInfo{name: name, dir: dir, fset: fset, funcs: map[string]*ast.FuncDecl{}}
	for _, p := range pkgs {
		if strings.HasSuffix(p.Name, "_test") {
			continue
		}
		var names []string
		for n := range p.Files {
			names = append(names, n)
		}
		sort.Strings(names)
		for _, n := range names {
			pi.files = append(pi.files, p.Files[n])
		}
	}
	pi.info = &types.Info{Types: map[ast.Expr]types.TypeAndValue{}, Selections: map[*ast.SelectorExpr]*types.Selection{}, Uses: map[*ast.Ident]types.Object{}, Defs: map[*ast.Ident]types.Object{}}
	conf := types.Config{Importer: stubImporter{importer.Default()}, Error: func(error) {}}
	pi.pkg, _ = conf.Check(name, fset, pi.files, pi.info)
	for _, f := range pi.files {
		for _, d := range f.Decls {
			if fd, ok := d.(*ast.FuncDecl); ok && fd.Body != nil {
				pi.funcs[funcKey(fd)] = fd
			}
		}
	}
	return pi
}

func funcKey(fd *ast.FuncDecl) string {
	if fd.Recv != nil && len(fd.Recv.List) > 0 {
		return recvName(fd.Recv.List[0].Type) + "." + fd.Name.Name
	}
	return fd.Name.Name
}
func recvName(e ast.Expr) string {
	switch t := e.(type) {
	case *ast.StarExpr:
		return recvName(t.X)
	case *ast.Ident:
		return t.Name
	case *ast.IndexExpr:
		return recvName(t.X)
	}
	return "?"
}

// ---- lock-aware walk ----

type lockSet map[string]byte // lock location -> 'R' or 'W'

func (l lockSet) clone() lockSet {
	c := lockSet{}
	for k, v := range l {
		c[k] = v
	}
	return c
}
func meet(a, b lockSet) lockSet {
	c := lockSet{}
	for k, v := range a {
		if w, ok := b[k]; ok {
			if v == 'R' || w == 'R' {
				c[k] = 'R'
			} else {
				c[k] = 'W'
			}
		}
	}
	return c
}
func (l lockSet) String() string {
	var ks []string
	for k, v := range l {
		ks = append(ks, k+":"+string(v))
	}
	sort.Strings(ks)
	return strings.Join(ks, ",")
}

type access struct {
	loc   string
	write bool
	locks lockSet
	fn    string // entry function
	site  string // file:line
	via   string
}
type callback struct {
	entry string
	kind  string // Process | Reopen | Close
	locks lockSet
	site  string
}

type walker struct {
	p           *pkgInfo
	entry       string
	depth       int
	stack       []string
	accesses    *[]access
	callbacks   *[]callback
	writes      *[]callback
	nested      *[]callback
	sections    map[string]int // entry -> acquisitions of Broker.lock
	ownSections map[string]int // "entry lock" -> acquisitions of any other lock of the library
	mapOps      *[]callback    // Store / Delete on graph.roots, per entry
	fieldCall   *[]callback    // calls of function-typed / interface-typed fields of gated.Filter (composeFrom, Broker.Send)
	sharedTyp   map[string]bool
	// lock leaks: returns of the entry function (not of inlined callees or closures) with a lock held that
	// no deferred unlock of the entry releases
	litDepth int
	// locks held by the goroutine that spawned the code being walked (it may wait for that code: the
	// collector of Send waits for the traversals): call-backs made there count as made under these locks
	spawnLocks lockSet
	// function literals passed as arguments to an inlined function, by parameter name: a call of the
	// parameter inside the callee runs the literal under the callee's locks at that point
	binds    []map[string]*ast.FuncLit
	litStack []*ast.FuncLit
	deferred map[string]bool
	leaks    *[]callback
}

func (w *walker) pos(n ast.Node) string {
	p := w.p.fset.Position(n.Pos())
	return fmt.Sprintf("%s:%d", filepath.Base(p.Filename), p.Line)
}

// structField resolves x.f to "Type.f" when x.f selects a field of a named struct type of this package set.
func (w *walker) structField(se *ast.SelectorExpr) (string, bool) { return w.structFieldX(se, false) }

func (w *walker) structFieldX(se *ast.SelectorExpr, allowSync bool) (string, bool) {
	sel, ok := w.p.info.Selections[se]
	if !ok || sel.Kind() != types.FieldVal {
		return "", false
	}
	recv := sel.Recv()
	for {
		if pt, ok := recv.(*types.Pointer); ok {
			recv = pt.Elem()
			continue
		}
		break
	}
	named, ok := recv.(*types.Named)
	if !ok {
		return "", false
	}
	// embedded promotion: use the declaring struct of the final field
	if len(sel.Index()) > 1 {
		t := named.Underlying()
		var owner *types.Named = named
		for i, idx := range sel.Index() {
			st, ok := t.(*types.Struct)
			if !ok {
				break
			}
			f := st.Field(idx)
			if i == len(sel.Index())-1 {
				break
			}
			ft := f.Type()
			if pt, ok := ft.(*types.Pointer); ok {
				ft = pt.Elem()
			}
			if n, ok := ft.(*types.Named); ok {
				owner = n
				t = n.Underlying()
			}
		}
		named = owner
	}
	if !allowSync && selfSync(sel.Type()) {
		return "", false
	}
	tn := named.Obj().Name()
	pk := ""
	if named.Obj().Pkg() != nil {
		pk = named.Obj().Pkg().Name()
	}
	if pk != w.p.name {
		if pk == "eventlogger" {
			return "eventlogger." + tn + "." + se.Sel.Name, true
		}
		return "", false
	}
	return w.p.name + "." + tn + "." + se.Sel.Name, true
}

// selfSync: values that synchronise themselves (sync.Map, mutexes, WaitGroup, atomics, channels) or
// structs made only of such fields (graphMap); accesses to them need no external guard.
func selfSync(t types.Type) bool { return selfSyncD(t, 0) }

func selfSyncD(t types.Type, depth int) bool {
	if depth > 3 {
		return false
	}
	if pt, ok := t.(*types.Pointer); ok {
		t = pt.Elem()
	}
	s := t.String()
	switch s {
	case "sync.Map", "sync.Mutex", "sync.RWMutex", "sync.WaitGroup", "sync.Once":
		return true
	}
	if strings.HasPrefix(s, "sync/atomic.") || strings.HasPrefix(s, "atomic.") {
		return true
	}
	if _, ok := t.Underlying().(*types.Chan); ok {
		return true
	}
	if named, ok := t.(*types.Named); ok {
		if st, ok := named.Underlying().(*types.Struct); ok && st.NumFields() > 0 {
			for i := 0; i < st.NumFields(); i++ {
				if !selfSyncD(st.Field(i).Type(), depth+1) {
					return false
				}
			}
			return true
		}
	}
	return false
}

var mutatingMethods = map[string]bool{"PushBack": true, "Remove": true, "Store": true, "Delete": true, "Close": true, "Init": true, "PushFront": true, "Reset": true}

func (w *walker) record(loc string, write bool, ls lockSet, n ast.Node, via string) {
	*w.accesses = append(*w.accesses, access{loc: loc, write: write, locks: ls.clone(), fn: w.entry, site: w.pos(n), via: via})
}

// lockOp recognises x.<mutex>.Lock() etc.; returns lock location and op.
func (w *walker) lockOp(call *ast.CallExpr) (string, string, bool) {
	se, ok := call.Fun.(*ast.SelectorExpr)
	if !ok {
		return "", "", false
	}
	switch se.Sel.Name {
	case "Lock", "Unlock", "RLock", "RUnlock":
	default:
		return "", "", false
	}
	inner, ok := se.X.(*ast.SelectorExpr)
	if !ok {
		return "", "", false
	}
	loc, ok := w.structFieldX(inner, true)
	if !ok {
		return "", "", false
	}
	return loc, se.Sel.Name, true
}

func terminates(stmts []ast.Stmt) bool {
	if len(stmts) == 0 {
		return false
	}
	switch s := stmts[len(stmts)-1].(type) {
	case *ast.ReturnStmt:
		return true
	case *ast.BranchStmt:
		return s.Tok == token.CONTINUE || s.Tok == token.BREAK || s.Tok == token.GOTO
	case *ast.ExprStmt:
		if c, ok := s.X.(*ast.CallExpr); ok {
			if id, ok := c.Fun.(*ast.Ident); ok && id.Name == "panic" {
				return true
			}
		}
	case *ast.BlockStmt:
		return terminates(s.List)
	}
	return false
}

func (w *walker) stmts(list []ast.Stmt, ls lockSet) lockSet {
	for _, s := range list {
		ls = w.stmt(s, ls)
	}
	return ls
}

func (w *walker) stmt(s ast.Stmt, ls lockSet) lockSet {
	switch t := s.(type) {
	case nil:
		return ls
	case *ast.BlockStmt:
		return w.stmts(t.List, ls)
	case *ast.ExprStmt:
		return w.expr(t.X, ls, false)
	case *ast.AssignStmt:
		for _, r := range t.Rhs {
			ls = w.expr(r, ls, false)
		}
		for _, l := range t.Lhs {
			ls = w.lhs(l, ls)
		}
		return ls
	case *ast.IncDecStmt:
		return w.lhs(t.X, ls)
	case *ast.DeclStmt:
		if gd, ok := t.Decl.(*ast.GenDecl); ok {
			for _, sp := range gd.Specs {
				if vs, ok := sp.(*ast.ValueSpec); ok {
					for _, v := range vs.Values {
						ls = w.expr(v, ls, false)
					}
				}
			}
		}
		return ls
	case *ast.ReturnStmt:
		for _, r := range t.Results {
			ls = w.expr(r, ls, false)
		}
		w.checkLeak(ls, t)
		return ls
	case *ast.DeferStmt:
		// deferred lock releases are ignored (held to the end); other deferred calls run with the
		// locks held at function end ~ the current set (see DESIGN: defers registered after the
		// deferred unlock run before it)
		if loc, op, ok := w.lockOp(t.Call); ok && (op == "Unlock" || op == "RUnlock") {
			if len(w.stack) == 1 && w.litDepth == 0 && w.deferred != nil {
				w.deferred[loc] = true
			}
			return ls
		}
		return w.expr(t.Call, ls, false)
	case *ast.GoStmt:
		// a new goroutine starts with no locks held -- but remember what its spawner holds
		saved := w.spawnLocks
		merged := lockSet{}
		for k, v := range saved {
			merged[k] = v
		}
		for k, v := range ls {
			if merged[k] != 'W' {
				merged[k] = v
			}
		}
		w.spawnLocks = merged
		w.expr(t.Call, lockSet{}, false)
		w.spawnLocks = saved
		return ls
	case *ast.IfStmt:
		ls = w.stmt(t.Init, ls)
		ls = w.expr(t.Cond, ls, false)
		a := w.stmts(t.Body.List, ls.clone())
		var outs []lockSet
		if !terminates(t.Body.List) {
			outs = append(outs, a)
		}
		if t.Else != nil {
			b := w.stmt(t.Else, ls.clone())
			var el []ast.Stmt
			if bs, ok := t.Else.(*ast.BlockStmt); ok {
				el = bs.List
			}
			if !(len(el) > 0 && terminates(el)) {
				outs = append(outs, b)
			}
		} else {
			outs = append(outs, ls)
		}
		if len(outs) == 0 {
			return ls
		}
		r := outs[0]
		for _, o := range outs[1:] {
			r = meet(r, o)
		}
		return r
	case *ast.ForStmt:
		ls = w.stmt(t.Init, ls)
		if t.Cond != nil {
			ls = w.expr(t.Cond, ls, false)
		}
		b := w.stmts(t.Body.List, ls.clone())
		b = w.stmt(t.Post, b)
		return meet(ls, b)
	case *ast.RangeStmt:
		ls = w.expr(t.X, ls, false)
		b := w.stmts(t.Body.List, ls.clone())
		return meet(ls, b)
	case *ast.SwitchStmt:
		ls = w.stmt(t.Init, ls)
		if t.Tag != nil {
			ls = w.expr(t.Tag, ls, false)
		}
		return w.clauses(t.Body.List, ls)
	case *ast.TypeSwitchStmt:
		ls = w.stmt(t.Init, ls)
		ls = w.stmt(t.Assign, ls)
		return w.clauses(t.Body.List, ls)
	case *ast.SelectStmt:
		return w.clauses(t.Body.List, ls)
	case *ast.SendStmt:
		ls = w.expr(t.Chan, ls, false)
		return w.expr(t.Value, ls, false)
	case *ast.LabeledStmt:
		return w.stmt(t.Stmt, ls)
	}
	return ls
}

func (w *walker) clauses(list []ast.Stmt, ls lockSet) lockSet {
	r := ls
	hasDefault := false
	first := true
	for _, c := range list {
		var body []ast.Stmt
		in := ls.clone()
		switch cc := c.(type) {
		case *ast.CaseClause:
			if cc.List == nil {
				hasDefault = true
			}
			for _, e := range cc.List {
				in = w.expr(e, in, false)
			}
			body = cc.Body
		case *ast.CommClause:
			if cc.Comm == nil {
				hasDefault = true
			}
			in = w.stmt(cc.Comm, in)
			body = cc.Body
		}
		out := w.stmts(body, in)
		if terminates(body) {
			continue
		}
		if first {
			r = out
			first = false
		} else {
			r = meet(r, out)
		}
	}
	if !hasDefault {
		if first {
			return ls
		}
		r = meet(r, ls)
	}
	return r
}

// lhs: the assigned expression is written
func (w *walker) lhs(e ast.Expr, ls lockSet) lockSet {
	switch t := e.(type) {
	case *ast.SelectorExpr:
		ls = w.expr(t.X, ls, false)
		if loc, ok := w.structField(t); ok {
			w.record(loc, true, ls, t, "assign")
		}
		return ls
	case *ast.IndexExpr: // x.f[k] = v writes container x.f
		ls = w.expr(t.Index, ls, false)
		if se, ok := t.X.(*ast.SelectorExpr); ok {
			ls = w.expr(se.X, ls, false)
			if loc, ok := w.structField(se); ok {
				w.record(loc, true, ls, t, "index-assign")
			}
			return ls
		}
		return w.expr(t.X, ls, false)
	case *ast.StarExpr:
		return w.expr(t.X, ls, false)
	case *ast.ParenExpr:
		return w.lhs(t.X, ls)
	}
	return ls
}

func (w *walker) expr(e ast.Expr, ls lockSet, _ bool) lockSet {
	switch t := e.(type) {
	case nil:
		return ls
	case *ast.SelectorExpr:
		ls = w.expr(t.X, ls, false)
		if loc, ok := w.structField(t); ok {
			w.record(loc, false, ls, t, "read")
		}
		return ls
	case *ast.CallExpr:
		return w.call(t, ls)
	case *ast.FuncLit:
		// executed synchronously by its caller (Range callbacks, immediately invoked closures)
		w.litDepth++
		r := w.stmts(t.Body.List, ls)
		w.litDepth--
		return r
	case *ast.BinaryExpr:
		ls = w.expr(t.X, ls, false)
		return w.expr(t.Y, ls, false)
	case *ast.UnaryExpr:
		return w.expr(t.X, ls, false)
	case *ast.StarExpr:
		return w.expr(t.X, ls, false)
	case *ast.ParenExpr:
		return w.expr(t.X, ls, false)
	case *ast.IndexExpr:
		ls = w.expr(t.X, ls, false)
		return w.expr(t.Index, ls, false)
	case *ast.SliceExpr:
		ls = w.expr(t.X, ls, false)
		ls = w.expr(t.Low, ls, false)
		return w.expr(t.High, ls, false)
	case *ast.TypeAssertExpr:
		return w.expr(t.X, ls, false)
	case *ast.KeyValueExpr:
		return w.expr(t.Value, ls, false)
	case *ast.CompositeLit:
		for _, el := range t.Elts {
			ls = w.expr(el, ls, false)
		}
		return ls
	}
	return ls
}

func (w *walker) call(c *ast.CallExpr, ls lockSet) lockSet {
	// lock operations
	if loc, op, ok := w.lockOp(c); ok {
		if _, held := ls[loc]; held && (op == "Lock" || op == "RLock") {
			*w.nested = append(*w.nested, callback{entry: w.entry, kind: op + " " + loc, locks: ls.clone(), site: w.pos(c)})
		}
		if loc == "eventlogger.Broker.lock" && (op == "Lock" || op == "RLock") {
			w.sections[w.entry]++
		}
		if loc != "eventlogger.Broker.lock" && (op == "Lock" || op == "RLock") && w.ownSections != nil {
			w.ownSections[w.entry+" "+loc]++
		}
		ls = ls.clone()
		switch op {
		case "Lock":
			ls[loc] = 'W'
		case "RLock":
			ls[loc] = 'R'
		default:
			delete(ls, loc)
		}
		return ls
	}
	for _, a := range c.Args {
		ls = w.expr(a, ls, false)
	}
	switch f := c.Fun.(type) {
	case *ast.Ident:
		switch f.Name {
		case "delete", "append":
			// delete(x.f, k): write to x.f ; append(x.f, ...) alone is a read (the assignment is the write)
			if f.Name == "delete" && len(c.Args) > 0 {
				if se, ok := c.Args[0].(*ast.SelectorExpr); ok {
					if loc, ok := w.structField(se); ok {
						w.record(loc, true, ls, c, "delete")
					}
				}
			}
			return ls
		case "close":
			return ls
		}
		if fd, ok := w.p.funcs[f.Name]; ok {
			return w.inline(fd, ls, c)
		}
		for i := len(w.binds) - 1; i >= 0; i-- {
			if lit, ok := w.binds[i][f.Name]; ok {
				for _, l := range w.litStack {
					if l == lit {
						return ls
					}
				}
				w.litStack = append(w.litStack, lit)
				saved := w.binds
				w.binds = w.binds[:i] // the literal's own free names are those of the scope it was written in
				w.litDepth++
				w.stmts(lit.Body.List, ls.clone())
				w.litDepth--
				w.binds = saved
				w.litStack = w.litStack[:len(w.litStack)-1]
				return ls
			}
		}
	case *ast.SelectorExpr:
		// method call on a field of an external type: x.f.M(...)
		if inner, ok := f.X.(*ast.SelectorExpr); ok {
			ls = w.expr(inner.X, ls, false)
			if loc, ok := w.structField(inner); ok {
				w.record(loc, mutatingMethods[f.Sel.Name], ls, c, "method:"+f.Sel.Name)
			}
		} else {
			ls = w.expr(f.X, ls, false)
		}
		// user callbacks
		switch f.Sel.Name {
		case "Process", "Reopen", "Close":
			if w.isUserCallback(f) {
				held := ls.clone()
				for k, v := range w.spawnLocks {
					if held[k] != 'W' {
						held[k] = v
					}
				}
				*w.callbacks = append(*w.callbacks, callback{entry: w.entry, kind: f.Sel.Name, locks: held, site: w.pos(c)})
			}
		}
		// escape summaries: external calls that read through a pointer to a shared type
		// (hand-written table, part of the trusted base): copystructure.Copy(e) with e *eventlogger.Event
		// reads every exported field of the event, in particular the Formatted map, without Event.l
		if id, ok := f.X.(*ast.Ident); ok && id.Name == "copystructure" && f.Sel.Name == "Copy" && len(c.Args) == 1 {
			if a, ok := c.Args[0].(*ast.Ident); ok && a.Name == "e" && w.p.name == "encrypt" {
				w.record("eventlogger.Event.Formatted", false, ls, c, "escape:copystructure.Copy")
			}
		}
		if inner, ok := f.X.(*ast.SelectorExpr); ok && (f.Sel.Name == "Store" || f.Sel.Name == "Delete") {
			if loc, ok := w.structFieldX(inner, true); ok && loc == "eventlogger.graph.roots" {
				*w.mapOps = append(*w.mapOps, callback{entry: w.entry, kind: f.Sel.Name, locks: ls.clone(), site: w.pos(c)})
			}
		}
		if w.p.name == "gated" {
			if f.Sel.Name == "composeFrom" || (f.Sel.Name == "Send" && strings.Contains(exprString(w.p.fset, f.X), "Broker")) {
				*w.fieldCall = append(*w.fieldCall, callback{entry: w.entry, kind: f.Sel.Name, locks: ls.clone(), site: w.pos(c)})
			}
		}
		if f.Sel.Name == "WriteTo" {
			*w.writes = append(*w.writes, callback{entry: w.entry, kind: "WriteTo", locks: ls.clone(), site: w.pos(c)})
		}
		// same-package method / function
		if sel, ok := w.p.info.Selections[f]; ok && sel.Kind() == types.MethodVal {
			recv := sel.Recv()
			if pt, ok := recv.(*types.Pointer); ok {
				recv = pt.Elem()
			}
			if named, ok := recv.(*types.Named); ok && named.Obj().Pkg() != nil && named.Obj().Pkg().Name() == w.p.name {
				if fd, ok := w.p.funcs[named.Obj().Name()+"."+f.Sel.Name]; ok {
					return w.inline(fd, ls, c)
				}
			}
		}
	case *ast.FuncLit:
		w.litDepth++
		r := w.stmts(f.Body.List, ls)
		w.litDepth--
		return r
	}
	return ls
}

// checkLeak: the entry function itself returns here (n == nil: falls off its end)
func (w *walker) checkLeak(ls lockSet, n ast.Node) {
	if len(w.stack) != 1 || w.litDepth != 0 || w.leaks == nil {
		return
	}
	for loc := range ls {
		if !w.deferred[loc] {
			site := "end of function"
			if n != nil {
				site = w.pos(n)
			}
			*w.leaks = append(*w.leaks, callback{entry: w.entry, kind: loc, locks: ls.clone(), site: site})
		}
	}
}

// isUserCallback: the receiver is of interface type (Node, Closer, Sender ...) or a NodeController
func (w *walker) isUserCallback(f *ast.SelectorExpr) bool {
	tv, ok := w.p.info.Types[f.X]
	if !ok {
		return false
	}
	t := tv.Type
	if pt, ok := t.(*types.Pointer); ok {
		t = pt.Elem()
	}
	if _, ok := t.Underlying().(*types.Interface); ok {
		return true
	}
	return false
}

func (w *walker) inline(fd *ast.FuncDecl, ls lockSet, at ast.Node) lockSet {
	key := funcKey(fd)
	for _, s := range w.stack {
		if s == key {
			return ls // recursion: already being walked with (at least) these locks
		}
	}
	if len(w.stack) > 12 {
		return ls
	}
	w.stack = append(w.stack, key)
	bind := map[string]*ast.FuncLit{}
	if ce, ok := at.(*ast.CallExpr); ok && fd.Type.Params != nil {
		var names []string
		for _, f := range fd.Type.Params.List {
			for _, n := range f.Names {
				names = append(names, n.Name)
			}
		}
		for i, a := range ce.Args {
			if i >= len(names) {
				break
			}
			switch x := a.(type) {
			case *ast.FuncLit:
				bind[names[i]] = x
			case *ast.Ident:
				for j := len(w.binds) - 1; j >= 0; j-- {
					if lit, ok := w.binds[j][x.Name]; ok {
						bind[names[i]] = lit
						break
					}
				}
			}
		}
	}
	w.binds = append(w.binds, bind)
	out := w.stmts(fd.Body.List, ls.clone())
	w.binds = w.binds[:len(w.binds)-1]
	w.stack = w.stack[:len(w.stack)-1]
	// locks held on return: deferred unlocks release what the callee acquired; keep the caller's view
	// of its own locks, but honour explicit releases of caller-held locks done by the callee
	res := ls.clone()
	for k := range ls {
		if _, ok := out[k]; !ok && !acquiresAndDefers(fd, k) {
			delete(res, k)
		}
	}
	return res
}

func acquiresAndDefers(fd *ast.FuncDecl, _ string) bool { return true }

// ---- main ----

func exprString(fset *token.FileSet, e ast.Node) string {
	var sb strings.Builder
	printer.Fprint(&sb, fset, e)
	return sb.String()
}

func main() {
	repo := flag.String("repo", "/repo", "repository root")
	out := flag.String("out", "", "output directory for generated Lean files")
	flag.Parse()
	pk := []*pkgInfo{
		loadPkg("eventlogger", *repo),
		loadPkg("gated", filepath.Join(*repo, "filters/gated")),
		loadPkg("cloudevents", filepath.Join(*repo, "formatter_filters/cloudevents")),
		loadPkg("writer", filepath.Join(*repo, "sinks/writer")),
		loadPkg("channel", filepath.Join(*repo, "sinks/channel")),
		loadPkg("encrypt", filepath.Join(*repo, "filters/encrypt")),
	}
	var accesses []access
	var callbacks, writes, nested, mapOps, fieldCall, leaks []callback
	sections := map[string]int{}
	ownSections := map[string]int{}
	for _, p := range pk {
		var keys []string
		for k := range p.funcs {
			keys = append(keys, k)
		}
		sort.Strings(keys)
		for _, k := range keys {
			fd := p.funcs[k]
			// entry points: every function / method (exported or not) is walked as an entry with no
			// locks held, except helpers documented as "caller holds the lock", which are only
			// reached by inlining from their callers
			if callerHoldsLock(fd) || !fd.Name.IsExported() {
				continue
			}
			w := &walker{p: p, entry: p.name + "." + k, accesses: &accesses, callbacks: &callbacks, writes: &writes, nested: &nested, sections: sections, ownSections: ownSections, mapOps: &mapOps, fieldCall: &fieldCall}
			w.stack = []string{k}
			w.deferred = map[string]bool{}
			w.leaks = &leaks
			end := w.stmts(fd.Body.List, lockSet{})
			if !terminates(fd.Body.List) {
				w.checkLeak(end, nil)
			}
		}
	}
	os.MkdirAll(*out, 0o755)
	writeAccesses(filepath.Join(*out, "Accesses.lean"), accesses)
	writeLockSites(filepath.Join(*out, "LockSites.lean"), callbacks, writes, nested, leaks, ownSections)
	writeRegistryFacts(filepath.Join(*out, "RegistryFacts.lean"), sections, mapOps, fieldCall, pk[0])
	writeDispatchFacts(filepath.Join(*out, "DispatchFacts.lean"), pk[0])
	writeDecisions(filepath.Join(*out, "Decisions.lean"), pk[0])
	writeSinkFacts(filepath.Join(*out, "SinkFacts.lean"), pk[4])
	writeEncryptFacts(filepath.Join(*out, "EncryptFacts.lean"), pk[5])
}

// writeEncryptFacts: the filter's key material (Wrapper, HmacSalt, HmacInfo) is replaced as ONE unit, inside
// one exclusive section of Filter.l, by Rotate and by a rotation payload; encrypt / hmacSha256 read it inside one section
func writeEncryptFacts(path string, p *pkgInfo) {
	oneSection := func(body *ast.BlockStmt, recv string, needAssign bool) bool {
		if body == nil {
			return false
		}
		src := exprString(p.fset, body)
		if strings.Count(src, recv+".l.Lock()") != 1 || !strings.Contains(src, "defer "+recv+".l.Unlock()") || strings.Count(src, recv+".l.Unlock()") != 1 {
			return false
		}
		// the section is opened before any key material is touched and no method of the filter is called
		// inside (a nested Rotate / Process would take the lock again or split the replacement)
		bad := false
		ast.Inspect(body, func(n ast.Node) bool {
			if c, ok := n.(*ast.CallExpr); ok {
				if se, ok := c.Fun.(*ast.SelectorExpr); ok {
					if id, ok := se.X.(*ast.Ident); ok && id.Name == recv {
						bad = true
					}
				}
			}
			return true
		})
		if bad {
			return false
		}
		if needAssign {
			for _, f := range []string{"Wrapper", "HmacSalt", "HmacInfo"} {
				i := strings.Index(src, recv+"."+f+" = ")
				if i < 0 || i < strings.Index(src, recv+".l.Lock()") {
					return false
				}
			}
		}
		return true
	}
	facts := map[string]bool{}
	if fd := p.funcs["Filter.Rotate"]; fd != nil {
		facts["rotateOneSection"] = oneSection(fd.Body, "ef", true)
	}
	if fd := p.funcs["Filter.Process"]; fd != nil {
		for _, st := range fd.Body.List {
			if ifs, ok := st.(*ast.IfStmt); ok && ifs.Init != nil && strings.Contains(exprString(p.fset, ifs.Init), "e.Payload.(RotateWrapper)") {
				facts["rotationPayloadOneSection"] = oneSection(ifs.Body, "ef", true)
				// consumed: the branch ends with `return nil, nil`
				if n := len(ifs.Body.List); n > 0 {
					facts["rotationPayloadConsumed"] = exprString(p.fset, ifs.Body.List[n-1]) == "return nil, nil"
				}
			}
		}
	}
	for _, fn := range []string{"Filter.encrypt", "Filter.hmacSha256"} {
		if fd := p.funcs[fn]; fd != nil {
			facts[strings.TrimPrefix(fn, "Filter.")+"OneSection"] = oneSection(fd.Body, "ef", false)
		}
	}
	order := []string{"rotateOneSection", "rotationPayloadOneSection", "rotationPayloadConsumed", "encryptOneSection", "hmacSha256OneSection"}
	var sb strings.Builder
	sb.WriteString("/- GENERATED by harness/cmd/gofacts from /repo's current source. Do not edit. -/\nnamespace Evl.Generated\n\nstructure EncryptFacts where\n")
	for _, k := range order {
		sb.WriteString("  " + k + " : Bool\n")
	}
	sb.WriteString("  deriving DecidableEq, Repr\n\ndef encryptFacts : EncryptFacts :=\n  { ")
	var fs []string
	for _, k := range order {
		fs = append(fs, fmt.Sprintf("%s := %v", k, facts[k]))
	}
	sb.WriteString(strings.Join(fs, "\n    ") + " }\n\nend Evl.Generated\n")
	os.WriteFile(path, []byte(sb.String()), 0o644)
}

// callerHoldsLock: unexported helpers whose doc comment says the caller holds the lock, or that
// are only meaningful under their caller's lock; they are analysed through inlining only.
func callerHoldsLock(fd *ast.FuncDecl) bool {
	if fd.Doc != nil {
		t := strings.ToLower(fd.Doc.Text())
		if strings.Contains(t, "caller holds a lock") || strings.Contains(t, "must\nhandle obtaining the relevant lock") || strings.Contains(t, "must handle obtaining the relevant lock") ||
			strings.Contains(t, "will not acquire it's own lock") || strings.Contains(t, "assumes that the caller holds") {
			return true
		}
	}
	if fd.Name.IsExported() {
		return false
	}
	switch funcKey(fd) {
	// unexported FileSink / gated / encrypt helpers are called with the receiver's mutex held by
	// their (exported) callers; treating them as entry points would report their accesses as
	// unguarded although no execution reaches them without the lock
	case "FileSink.open", "FileSink.rotate", "FileSink.pruneFiles", "FileSink.reopen",
		"Filter.openGate":
		return true
	}
	return false
}

// ---- output ----

func leanStr(s string) string { return "\"" + strings.ReplaceAll(s, "\"", "'") + "\"" }

func writeAccesses(path string, acc []access) {
	// keep only locations of the shared types that have at least one write somewhere
	writes := map[string]bool{}
	for _, a := range acc {
		if a.write {
			writes[a.loc] = true
		}
	}
	type key struct {
		loc, fn, site, via string
		write              bool
		locks              string
	}
	seen := map[key]bool{}
	var rows []access
	for _, a := range acc {
		if !writes[a.loc] || excludedLoc(a.loc) {
			continue
		}
		k := key{a.loc, a.fn, a.site, a.via, a.write, a.locks.String()}
		if seen[k] {
			continue
		}
		seen[k] = true
		rows = append(rows, a)
	}
	sort.Slice(rows, func(i, j int) bool {
		if rows[i].loc != rows[j].loc {
			return rows[i].loc < rows[j].loc
		}
		if rows[i].site != rows[j].site {
			return rows[i].site < rows[j].site
		}
		return rows[i].fn < rows[j].fn
	})
	// intern locations and locks as small numbers (kernel `decide` never compares strings)
	locID := map[string]int{}
	var locs []string
	id := func(m map[string]int, l *[]string, s string) int {
		if v, ok := m[s]; ok {
			return v
		}
		m[s] = len(*l)
		*l = append(*l, s)
		return m[s]
	}
	lockID := map[string]int{}
	var lockNames []string
	var sb strings.Builder
	sb.WriteString("/- GENERATED by harness/cmd/gofacts from /repo's current source. Do not edit. -/\nimport Evl.Model.Lockset\nnamespace Evl.Generated\nopen Evl.Lockset\n\n")
	var lines []string
	for _, a := range rows {
		var hs []string
		var ks []string
		for k := range a.locks {
			ks = append(ks, k)
		}
		sort.Strings(ks)
		for _, k := range ks {
			m := "Mode.r"
			if a.locks[k] == 'W' {
				m = "Mode.w"
			}
			hs = append(hs, fmt.Sprintf("(%d, %s)", id(lockID, &lockNames, k), m))
		}
		lines = append(lines, fmt.Sprintf("  { loc := %d, write := %v, held := [%s], escape := %v } -- %s %s %s (%s)", id(locID, &locs, a.loc), a.write, strings.Join(hs, ", "), strings.HasPrefix(a.via, "escape:"), a.loc, a.site, a.fn, a.via))
	}
	sb.WriteString("/-- location codes -/\ndef locNames : List String := [" + joinQ(locs) + "]\n")
	sb.WriteString("/-- lock codes -/\ndef lockNames : List String := [" + joinQ(lockNames) + "]\n\n")
	grp := func(l string) int {
		switch {
		case strings.HasPrefix(l, "eventlogger.Broker.") || strings.HasPrefix(l, "eventlogger.graph.") || strings.HasPrefix(l, "eventlogger.nodeUsage."):
			return 0
		case strings.HasPrefix(l, "eventlogger.Event."):
			return 1
		case strings.HasPrefix(l, "eventlogger.FileSink."):
			return 2
		case strings.HasPrefix(l, "writer."):
			return 3
		case strings.HasPrefix(l, "gated."):
			return 4
		case strings.HasPrefix(l, "encrypt."):
			return 5
		case strings.HasPrefix(l, "cloudevents."):
			return 6
		}
		return 9
	}
	var gs []string
	for _, l := range locs {
		gs = append(gs, fmt.Sprint(grp(l)))
	}
	sb.WriteString("/-- group of each location code: 0 Broker registry, 1 Event, 2 FileSink, 3 writer.Sink, 4 gated, 5 encrypt, 6 cloudevents -/\ndef locGroup : List Nat := [" + strings.Join(gs, ", ") + "]\n")
	code := func(name string) int {
		if v, ok := lockID[name]; ok {
			return v
		}
		return 999
	}
	sb.WriteString(fmt.Sprintf("def brokerLockCode : Nat := %d\ndef eventLockCode : Nat := %d\ndef fileSinkLockCode : Nat := %d\ndef gatedLockCode : Nat := %d\ndef encryptLockCode : Nat := %d\n\n",
		code("eventlogger.Broker.lock"), code("eventlogger.Event.l"), code("eventlogger.FileSink.l"), code("gated.Filter.l"), code("encrypt.Filter.l")))
	sb.WriteString("def accesses : List Access := [\n")
	for i, l := range lines {
		// the comment must come after the comma
		parts := strings.SplitN(l, " -- ", 2)
		sep := ","
		if i == len(lines)-1 {
			sep = ""
		}
		sb.WriteString(parts[0] + sep + " -- " + parts[1] + "\n")
	}
	sb.WriteString("]\n\nend Evl.Generated\n")
	os.WriteFile(path, []byte(sb.String()), 0o644)
}

func joinQ(xs []string) string {
	var q []string
	for _, x := range xs {
		q = append(q, leanStr(x))
	}
	return strings.Join(q, ", ")
}

// excludedLoc: locations outside the discipline check, each with its reason (part of the trusted base)
func excludedLoc(loc string) bool {
	switch loc {
	case "eventlogger.Broker.clock": // StopTimeAt is a documented test helper, not for concurrent use
		return true
	}
	// per-call helper objects, never shared between goroutines
	for _, p := range []string{"eventlogger.Status.", "eventlogger.options.", "eventlogger.linkedNode.", "eventlogger.registeredPipeline.", "eventlogger.NodeController.",
		"encrypt.tMap.", "encrypt.trackedMaps.", "encrypt.options.", "encrypt.tagInfo.", "encrypt.pointerstructureInfo.", "cloudevents.Event.", "gated.EventPayload.", "gated.Payload.", "gated.EventPayloadDetails.",
		"eventlogger.clock."} {
		if strings.HasPrefix(loc, p) {
			return true
		}
	}
	return false
}

func writeLockSites(path string, cbs, writes, nested, leaks []callback, ownSections map[string]int) {
	var sb strings.Builder
	sb.WriteString("/- GENERATED by harness/cmd/gofacts from /repo's current source. Do not edit. -/\nnamespace Evl.Generated\n\n")
	sb.WriteString("/-- a call into user code reachable from an exported Broker method; `brokerLock`: 0 not held, 1 read, 2 write -/\nstructure CallbackSite where\n  kind : Nat   -- 0 Process, 1 Reopen, 2 Close\n  brokerLock : Nat\n  otherLocks : Nat   -- library locks other than Broker.lock held at the call (a function literal run by an inlined callee counts the callee's locks)\n  deriving DecidableEq, Repr\n\n")
	sb.WriteString("def brokerCallbacks : List CallbackSite := [\n")
	var lines []string
	seen := map[string]bool{}
	for _, c := range cbs {
		if !strings.HasPrefix(c.entry, "eventlogger.Broker.") {
			continue
		}
		name := strings.TrimPrefix(c.entry, "eventlogger.Broker.")
		if name == "" || !(name[0] >= 'A' && name[0] <= 'Z') {
			continue
		}
		kind := map[string]int{"Process": 0, "Reopen": 1, "Close": 2}[c.kind]
		held := 0
		if m, ok := c.locks["eventlogger.Broker.lock"]; ok {
			held = 1
			if m == 'W' {
				held = 2
			}
		}
		other := 0
		for l := range c.locks {
			if l != "eventlogger.Broker.lock" {
				other++
			}
		}
		k := fmt.Sprintf("%s|%s|%d|%d", c.entry, c.site, held, other)
		if seen[k] {
			continue
		}
		seen[k] = true
		lines = append(lines, fmt.Sprintf("  { kind := %d, brokerLock := %d, otherLocks := %d }\t-- %s -> %s at %s", kind, held, other, c.entry, c.kind, c.site))
	}
	sort.Strings(lines)
	for i, l := range lines {
		parts := strings.SplitN(l, "\t-- ", 2)
		sep := ","
		if i == len(lines)-1 {
			sep = ""
		}
		sb.WriteString(parts[0] + sep + " -- " + parts[1] + "\n")
	}
	sb.WriteString("]\n\n")
	// acquisitions of a lock that is already held (self-deadlock with sync.RWMutex / sync.Mutex)
	sb.WriteString("/-- number of lock acquisitions performed while the same lock is already held, anywhere in the library -/\n")
	var nl []string
	seenN := map[string]bool{}
	for _, n := range nested {
		k := n.kind + "@" + n.site
		if !seenN[k] {
			seenN[k] = true
			nl = append(nl, k)
		}
	}
	sort.Strings(nl)
	sb.WriteString(fmt.Sprintf("def nestedAcquisitions : Nat := %d -- %s\n\n", len(nl), strings.Join(nl, "; ")))
	// sink writes: is the sink's own mutex held (write mode) around the single WriteTo?
	sb.WriteString("/-- `WriteTo` call sites of the stock sinks: (sink: 0 writer.Sink, 1 FileSink, 2 other; own mutex held exclusively) -/\ndef sinkWrites : List (Nat × Bool) := [\n")
	var wl []string
	seenW := map[string]bool{}
	for _, wv := range writes {
		kind, lock := 2, ""
		switch {
		case strings.HasPrefix(wv.entry, "writer.Sink.Process"):
			kind, lock = 0, "writer.Sink.l"
		case strings.HasPrefix(wv.entry, "eventlogger.FileSink.Process"):
			kind, lock = 1, "eventlogger.FileSink.l"
		default:
			continue
		}
		k := wv.entry + wv.site
		if seenW[k] {
			continue
		}
		seenW[k] = true
		wl = append(wl, fmt.Sprintf("  (%d, %v)\t-- %s at %s", kind, wv.locks[lock] == 'W', wv.entry, wv.site))
	}
	sort.Strings(wl)
	for i, l := range wl {
		parts := strings.SplitN(l, "\t-- ", 2)
		sep := ","
		if i == len(wl)-1 {
			sep = ""
		}
		sb.WriteString(parts[0] + sep + " -- " + parts[1] + "\n")
	}
	sb.WriteString("]\n\n")
	// returns with a lock still held (and no deferred unlock): a leaked lock
	seenL := map[string]bool{}
	var ll []string
	for _, l := range leaks {
		k := l.entry + l.kind + l.site
		if seenL[k] {
			continue
		}
		seenL[k] = true
		ll = append(ll, fmt.Sprintf("-- %s returns at %s holding %s", l.entry, l.site, l.kind))
	}
	sort.Strings(ll)
	sb.WriteString(fmt.Sprintf("/-- exported functions that can return with one of their locks still held (no deferred unlock covers it) -/\ndef lockLeaks : Nat := %d\n", len(ll)))
	for _, l := range ll {
		sb.WriteString(l + "\n")
	}
	// own-lock sections of the stock nodes that promise atomic operations: how often an exported method
	// (with everything it inlines) acquires the node's own lock
	for _, nd := range []struct{ def, prefix, lock, doc string }{
		{"gatedSections", "gated.Filter.", "gated.Filter.l", "acquisitions of gated.Filter.l per exported method of gated.Filter (with its helpers inlined): an operation that takes the lock once and never gives it up in between is one atomic step"},
		{"fileSinkSections", "eventlogger.FileSink.", "eventlogger.FileSink.l", "acquisitions of FileSink.l per exported method of FileSink"},
	} {
		var rows []string
		for k, n := range ownSections {
			parts := strings.SplitN(k, " ", 2)
			if strings.HasPrefix(parts[0], nd.prefix) && parts[1] == nd.lock {
				rows = append(rows, fmt.Sprintf("%d\t-- %s", n, parts[0]))
			}
		}
		sort.Slice(rows, func(i, j int) bool { return strings.SplitN(rows[i], "\t", 2)[1] < strings.SplitN(rows[j], "\t", 2)[1] })
		sb.WriteString(fmt.Sprintf("\n/-- %s -/\ndef %s : List Nat := [\n", nd.doc, nd.def))
		for i, r := range rows {
			parts := strings.SplitN(r, "\t", 2)
			sep := ","
			if i == len(rows)-1 {
				sep = ""
			}
			sb.WriteString("  " + parts[0] + sep + " " + parts[1] + "\n")
		}
		sb.WriteString("]\n")
	}
	sb.WriteString("\nend Evl.Generated\n")
	os.WriteFile(path, []byte(sb.String()), 0o644)
}

func writeRegistryFacts(path string, sections map[string]int, mapOps, fieldCall []callback, root *pkgInfo) {
	var sb strings.Builder
	sb.WriteString("/- GENERATED by harness/cmd/gofacts from /repo's current source. Do not edit. -/\nnamespace Evl.Generated\n\n")
	sb.WriteString("/-- acquisitions of Broker.lock per exported Broker method (one critical section each) -/\ndef brokerSections : List Nat := [\n")
	var ks []string
	for k := range sections {
		if strings.HasPrefix(k, "eventlogger.Broker.") {
			ks = append(ks, k)
		}
	}
	sort.Strings(ks)
	for i, k := range ks {
		sep := ","
		if i == len(ks)-1 {
			sep = ""
		}
		sb.WriteString(fmt.Sprintf("  %d%s -- %s\n", sections[k], sep, k))
	}
	sb.WriteString("]\n\n")
	st, del := 0, 0
	seen := map[string]bool{}
	for _, m := range mapOps {
		if m.entry != "eventlogger.Broker.RegisterPipeline" || seen[m.kind+m.site] {
			continue
		}
		seen[m.kind+m.site] = true
		if m.kind == "Store" {
			st++
		} else {
			del++
		}
	}
	sb.WriteString(fmt.Sprintf("/-- RegisterPipeline replaces a pipeline by a single sync.Map Store and never deletes it first -/\ndef regPipeStores : Nat := %d\ndef regPipeDeletes : Nat := %d\n\n", st, del))
	// every mutation of a graph's pipeline map happens inside the caller's exclusive Broker.lock section
	sb.WriteString("/-- every Store / Delete on graph.roots reachable from an exported function: (0 Store | 1 Delete, Broker.lock held exclusively there) -/\ndef rootsMutations : List (Nat × Bool) := [\n")
	var rl []string
	seenR := map[string]bool{}
	for _, m := range mapOps {
		k := m.entry + m.kind + m.site
		if seenR[k] {
			continue
		}
		seenR[k] = true
		kind := 0
		if m.kind == "Delete" {
			kind = 1
		}
		rl = append(rl, fmt.Sprintf("  (%d, %v)\t-- %s in %s at %s", kind, m.locks["eventlogger.Broker.lock"] == 'W', m.kind, m.entry, m.site))
	}
	sort.Strings(rl)
	for i, l := range rl {
		parts := strings.SplitN(l, "\t-- ", 2)
		sep := ","
		if i == len(rl)-1 {
			sep = ""
		}
		sb.WriteString(parts[0] + sep + " -- " + parts[1] + "\n")
	}
	sb.WriteString("]\n\n")
	// graphMap is a sync.Map and nothing else: one field, and Range / Store / Delete are one call on it each
	// (the trusted base assumes sync.Map's per-key atomicity and Range semantics for the pipeline map)
	plain := false
	var ts *ast.TypeSpec
	for _, f := range root.files {
		ast.Inspect(f, func(n ast.Node) bool {
			if t, ok := n.(*ast.TypeSpec); ok && t.Name.Name == "graphMap" {
				ts = t
			}
			return true
		})
	}
	if ts != nil {
		if st, ok := ts.Type.(*ast.StructType); ok && len(st.Fields.List) == 1 && len(st.Fields.List[0].Names) == 1 &&
			exprString(root.fset, st.Fields.List[0].Type) == "sync.Map" {
			plain = true
			fld := st.Fields.List[0].Names[0].Name
			for _, m := range []string{"Range", "Store", "Delete"} {
				fd := root.funcs["graphMap."+m]
				if fd == nil || len(fd.Body.List) != 1 {
					plain = false
					continue
				}
				es, ok := fd.Body.List[0].(*ast.ExprStmt)
				if !ok || !strings.HasPrefix(exprString(root.fset, es.X), "g."+fld+"."+m+"(") {
					plain = false
				}
			}
		}
	}
	sb.WriteString(fmt.Sprintf("/-- graphMap is exactly a sync.Map: one field, Range / Store / Delete are one call on it each -/\ndef graphMapPlain : Bool := %v\n\n", plain))
	// gated: composition and Broker sends happen while Filter.l is held exclusively
	sb.WriteString("/-- gated.Filter: calls of composeFrom / Broker.Send, with whether Filter.l is held exclusively there -/\ndef gatedCalls : List (Nat × Bool) := [\n")
	var gl []string
	seenG := map[string]bool{}
	for _, f := range fieldCall {
		k := f.kind + f.site
		if seenG[k] {
			continue
		}
		seenG[k] = true
		kind := 0
		if f.kind == "Send" {
			kind = 1
		}
		gl = append(gl, fmt.Sprintf("  (%d, %v)\t-- %s at %s", kind, f.locks["gated.Filter.l"] == 'W', f.kind, f.site))
	}
	sort.Strings(gl)
	for i, l := range gl {
		parts := strings.SplitN(l, "\t-- ", 2)
		sep := ","
		if i == len(gl)-1 {
			sep = ""
		}
		sb.WriteString(parts[0] + sep + " -- " + parts[1] + "\n")
	}
	sb.WriteString("]\n\nend Evl.Generated\n")
	os.WriteFile(path, []byte(sb.String()), 0o644)
}

// writeSinkFacts: ChannelSink.Process hands the event over in ONE select that also watches the context and a timer
func writeSinkFacts(path string, p *pkgInfo) {
	selects, sendWithCtx, sendWithTimer, bareSends := 0, false, false, 0
	if fd := p.funcs["ChannelSink.Process"]; fd != nil {
		ast.Inspect(fd.Body, func(n ast.Node) bool {
			switch t := n.(type) {
			case *ast.SelectStmt:
				selects++
				hasSend, hasCtx, hasTimer := false, false, false
				for _, c := range t.Body.List {
					cc := c.(*ast.CommClause)
					if cc.Comm == nil {
						continue
					}
					src := exprString(p.fset, cc.Comm)
					if _, ok := cc.Comm.(*ast.SendStmt); ok {
						hasSend = true
					}
					if strings.Contains(src, "ctx.Done()") {
						hasCtx = true
					}
					if strings.Contains(src, "time.After(") || strings.Contains(src, ".C") {
						hasTimer = true
					}
				}
				if hasSend {
					sendWithCtx = sendWithCtx || hasCtx
					sendWithTimer = sendWithTimer || hasTimer
					if !hasCtx || !hasTimer {
						bareSends++
					}
				}
				return false
			case *ast.SendStmt:
				bareSends++
			}
			return true
		})
	}
	var sb strings.Builder
	sb.WriteString("/- GENERATED by harness/cmd/gofacts from /repo's current source. Do not edit. -/\nnamespace Evl.Generated\n\n")
	sb.WriteString(fmt.Sprintf("/-- ChannelSink.Process: number of selects; the channel send sits in a select with a ctx.Done() arm / a timer arm; sends not so guarded -/\ndef channelSelects : Nat := %d\ndef channelSendWithCtx : Bool := %v\ndef channelSendWithTimer : Bool := %v\ndef channelUnguardedSends : Nat := %d\n\nend Evl.Generated\n", selects, sendWithCtx, sendWithTimer, bareSends))
	os.WriteFile(path, []byte(sb.String()), 0o644)
}

// ---- dispatch facts ----

func writeDispatchFacts(path string, p *pkgInfo) {
	proc := p.funcs["graph.processWithThresholds"]
	if proc == nil {
		proc = p.funcs["graph.process"]
	}
	dop := p.funcs["graph.doProcess"]
	facts := map[string]bool{}
	order := []string{"sendsGuardedByCtx", "noLiveBareSend", "collectorHasCtxArm", "collectorChecksClosed", "closeAfterWait", "closeOnce",
		"addBeforeRootCall", "addBeforeSpawn", "doProcessDefersDone", "rangeChecksCtxBeforeStart", "childGetsReturnedEvent", "sinkFlagFromType", "childrenSpawnedWithGo", "rootCalledInline", "errorEndsTraversalFirst",
		"ctxArmReturnsAtOnce", "errorAlwaysReported", "dropAlwaysReported"}
	for _, k := range order {
		facts[k] = false
	}
	if proc != nil && dop != nil {
		// sends in doProcess
		guarded, bareLive := true, 0
		ast.Inspect(dop.Body, func(n ast.Node) bool {
			sel, ok := n.(*ast.SelectStmt)
			if !ok {
				return true
			}
			hasSend, hasCtx := false, false
			for _, c := range sel.Body.List {
				cc := c.(*ast.CommClause)
				if _, ok := cc.Comm.(*ast.SendStmt); ok {
					hasSend = true
				}
				if es, ok := cc.Comm.(*ast.ExprStmt); ok && strings.Contains(exprString(p.fset, es.X), "ctx.Done()") {
					hasCtx = true
				}
			}
			if hasSend && !hasCtx {
				guarded = false
			}
			return true
		})
		// bare sends (not inside a select)
		var bare []*ast.SendStmt
		var visit func(n ast.Node, inSelect bool)
		visit = func(n ast.Node, inSelect bool) {
			ast.Inspect(n, func(m ast.Node) bool {
				switch t := m.(type) {
				case *ast.SelectStmt:
					return false
				case *ast.SendStmt:
					bare = append(bare, t)
				}
				return true
			})
		}
		visit(dop.Body, false)
		for _, b := range bare {
			if !deadSend(p, dop, b) {
				bareLive++
			}
		}
		facts["sendsGuardedByCtx"] = guarded
		facts["noLiveBareSend"] = bareLive == 0
		facts["doProcessDefersDone"] = len(dop.Body.List) > 0 && strings.Contains(exprString(p.fset, dop.Body.List[0]), "defer wg.Done()")
		src := exprString(p.fset, dop.Body)
		facts["childGetsReturnedEvent"] = strings.Contains(src, "e, err := node.node.Process(ctx, e)") && strings.Contains(src, "go g.doProcess(ctx, child, e, statusChan, wg)")
		facts["childrenSpawnedWithGo"] = strings.Contains(src, "go g.doProcess(")
		facts["sinkFlagFromType"] = strings.Contains(src, "if node.node.Type() == NodeTypeSink {\n\t\tcompleteStatus.completeSinks = []NodeID{node.nodeID}")
		facts["addBeforeSpawn"] = precededByAdd(p, dop.Body, "go g.doProcess(")
		// the first test after node.Process is `if err != nil { ...; return }` at the top level of doProcess
		for i, st := range dop.Body.List {
			if strings.Contains(exprString(p.fset, st), "node.node.Process(ctx, e)") {
				for _, nx := range dop.Body.List[i+1:] {
					if strings.HasPrefix(exprString(p.fset, nx), "verifPoint(") {
						continue
					}
					if ifs, ok := nx.(*ast.IfStmt); ok && exprString(p.fset, ifs.Cond) == "err != nil" && terminates(ifs.Body.List) {
						facts["errorEndsTraversalFirst"] = true
					}
					break
				}
				break
			}
		}
		// the `err != nil` and `e == nil` exits do nothing but the guarded report: (verifPoint calls,) one select
		// with a send arm, return -- no other way out before the report
		onlyReports := func(body []ast.Stmt) bool {
			var rest []ast.Stmt
			for _, st := range body {
				if strings.HasPrefix(exprString(p.fset, st), "verifPoint(") {
					continue
				}
				rest = append(rest, st)
			}
			if len(rest) != 2 {
				return false
			}
			sel, ok := rest[0].(*ast.SelectStmt)
			if !ok {
				return false
			}
			hasSend := false
			for _, c := range sel.Body.List {
				if _, ok := c.(*ast.CommClause).Comm.(*ast.SendStmt); ok {
					hasSend = true
				}
			}
			_, isRet := rest[1].(*ast.ReturnStmt)
			return hasSend && isRet
		}
		for _, st := range dop.Body.List {
			if ifs, ok := st.(*ast.IfStmt); ok && ifs.Init == nil && ifs.Else == nil {
				switch exprString(p.fset, ifs.Cond) {
				case "err != nil":
					facts["errorAlwaysReported"] = onlyReports(ifs.Body.List)
				case "e == nil":
					facts["dropAlwaysReported"] = onlyReports(ifs.Body.List)
				}
			}
		}
		// process
		psrc := exprString(p.fset, proc.Body)
		facts["addBeforeRootCall"] = precededByAdd(p, proc.Body, "g.doProcess(ctx, pipeline.rootNode")
		facts["rootCalledInline"] = strings.Contains(psrc, "g.doProcess(ctx, pipeline.rootNode, e, statusChan, &wg)") && !strings.Contains(psrc, "go g.doProcess(ctx, pipeline.rootNode")
		facts["closeOnce"] = strings.Count(psrc, "close(statusChan)") == 1
		iw, ic := strings.Index(psrc, "wg.Wait()"), strings.Index(psrc, "close(statusChan)")
		facts["closeAfterWait"] = iw >= 0 && ic > iw
		// collector select
		ast.Inspect(proc.Body, func(n ast.Node) bool {
			sel, ok := n.(*ast.SelectStmt)
			if !ok {
				return true
			}
			s := exprString(p.fset, sel)
			if strings.Contains(s, "<-statusChan") {
				facts["collectorHasCtxArm"] = strings.Contains(s, "case <-ctx.Done():")
				facts["collectorChecksClosed"] = strings.Contains(s, "s, ok := <-statusChan") && strings.Contains(s, "if ok {")
				// the context arm ends the collection at once: nothing in it can block
				for _, c := range sel.Body.List {
					cc := c.(*ast.CommClause)
					if es, ok := cc.Comm.(*ast.ExprStmt); ok && strings.Contains(exprString(p.fset, es.X), "ctx.Done()") {
						blocking := false
						for _, st := range cc.Body {
							ast.Inspect(st, func(m ast.Node) bool {
								switch t := m.(type) {
								case *ast.UnaryExpr:
									if t.Op == token.ARROW {
										blocking = true
									}
								case *ast.SendStmt, *ast.SelectStmt, *ast.RangeStmt, *ast.ForStmt, *ast.GoStmt:
									blocking = true
								case *ast.CallExpr:
									if !strings.HasPrefix(exprString(p.fset, t), "verifPoint(") {
										blocking = true // any call could wait (Wait, Lock, ...): none is expected here
									}
								}
								return true
							})
						}
						facts["ctxArmReturnsAtOnce"] = !blocking
					}
				}
			}
			if strings.Contains(s, "return false") && strings.Contains(s, "default:") {
				facts["rangeChecksCtxBeforeStart"] = strings.Contains(s, "case <-ctx.Done():")
			}
			return true
		})
	}
	var sb strings.Builder
	sb.WriteString("/- GENERATED by harness/cmd/gofacts from /repo's current source. Do not edit. -/\nnamespace Evl.Generated\n\nstructure DispatchFacts where\n")
	for _, k := range order {
		sb.WriteString("  " + k + " : Bool\n")
	}
	sb.WriteString("  deriving DecidableEq, Repr\n\ndef dispatchFacts : DispatchFacts :=\n  { ")
	var fs []string
	for _, k := range order {
		fs = append(fs, fmt.Sprintf("%s := %v", k, facts[k]))
	}
	sb.WriteString(strings.Join(fs, "\n    ") + " }\n\nend Evl.Generated\n")
	os.WriteFile(path, []byte(sb.String()), 0o644)
}

// precededByAdd: every statement containing `needle` is preceded (ignoring verifPoint calls) by wg.Add(1)
func precededByAdd(p *pkgInfo, body *ast.BlockStmt, needle string) bool {
	ok, found := true, false
	ast.Inspect(body, func(n ast.Node) bool {
		bs, isB := n.(*ast.BlockStmt)
		if !isB {
			return true
		}
		for i, s := range bs.List {
			switch s.(type) {
			case *ast.ExprStmt, *ast.GoStmt:
			default:
				continue
			}
			if strings.HasPrefix(exprString(p.fset, s), needle) || strings.HasPrefix(exprString(p.fset, s), "go "+strings.TrimPrefix(needle, "go ")) && strings.HasPrefix(needle, "go ") {
				found = true
				j := i - 1
				for j >= 0 && strings.HasPrefix(exprString(p.fset, bs.List[j]), "verifPoint(") {
					j--
				}
				if j < 0 || exprString(p.fset, bs.List[j]) != "wg.Add(1)" {
					ok = false
				}
			}
		}
		return true
	})
	return ok && found
}

// deadSend: the send sits inside `if COND { ... }` and an earlier `if COND { ...; return }` with the
// same condition precedes the enclosing statement in the function body, with no assignment to the
// identifiers of COND in between.
func deadSend(p *pkgInfo, fd *ast.FuncDecl, send *ast.SendStmt) bool {
	// find the chain of enclosing if statements
	var path []ast.Node
	var found []ast.Node
	ast.Inspect(fd.Body, func(n ast.Node) bool {
		if n == nil {
			path = path[:len(path)-1]
			return true
		}
		path = append(path, n)
		if n == ast.Node(send) {
			found = append([]ast.Node(nil), path...)
		}
		return true
	})
	for i := len(found) - 1; i >= 0; i-- {
		ifs, ok := found[i].(*ast.IfStmt)
		if !ok {
			continue
		}
		cond := exprString(p.fset, ifs.Cond)
		// top-level statement of the function containing this if
		var top ast.Stmt
		for _, s := range fd.Body.List {
			if s.Pos() <= ifs.Pos() && ifs.End() <= s.End() {
				top = s
			}
		}
		for _, s := range fd.Body.List {
			if s == top {
				break
			}
			if e, ok := s.(*ast.IfStmt); ok && exprString(p.fset, e.Cond) == cond && terminates(e.Body.List) && e.Else == nil {
				// no assignment to `e` between s and top
				clean := true
				after := false
				for _, t := range fd.Body.List {
					if t == s {
						after = true
						continue
					}
					if t == top {
						break
					}
					if after {
						if as, ok := t.(*ast.AssignStmt); ok {
							for _, l := range as.Lhs {
								if strings.Contains(cond, exprString(p.fset, l)) {
									clean = false
								}
							}
						}
					}
				}
				if clean {
					return true
				}
			}
		}
	}
	return false
}

// ---- decisions ----

func writeDecisions(path string, p *pkgInfo) {
	var sb strings.Builder
	sb.WriteString("/- GENERATED by harness/cmd/gofacts from /repo's current source. Do not edit. -/\nnamespace Evl.Generated\n\n")
	sb.WriteString("inductive Cmp | lt | le | gt | ge | eq | ne | other\n  deriving DecidableEq, Repr\n")
	sb.WriteString("/-- operands of Status.getError / FileSink.rotate -/\ninductive Opnd | lenComplete | lenCompleteSinks | threshold | thresholdSinks | bytesWritten | maxBytes | elapsed | maxDuration | zero | other\n  deriving DecidableEq, Repr\n")
	sb.WriteString("structure Cond where\n  l : Opnd\n  op : Cmp\n  r : Opnd\n  deriving DecidableEq, Repr\n\n")
	opnd := func(s string) string {
		s = strings.TrimSpace(s)
		switch s {
		case "len(s.complete)":
			return ".lenComplete"
		case "len(s.completeSinks)":
			return ".lenCompleteSinks"
		case "threshold":
			return ".threshold"
		case "thresholdSinks":
			return ".thresholdSinks"
		case "fs.BytesWritten":
			return ".bytesWritten"
		case "int64(fs.MaxBytes)", "fs.MaxBytes":
			return ".maxBytes"
		case "elapsed":
			return ".elapsed"
		case "fs.MaxDuration":
			return ".maxDuration"
		case "0":
			return ".zero"
		}
		return ".other"
	}
	cmp := func(t token.Token) string {
		switch t {
		case token.LSS:
			return ".lt"
		case token.LEQ:
			return ".le"
		case token.GTR:
			return ".gt"
		case token.GEQ:
			return ".ge"
		case token.EQL:
			return ".eq"
		case token.NEQ:
			return ".ne"
		}
		return ".other"
	}
	cond := func(e ast.Expr) string {
		for {
			if pe, ok := e.(*ast.ParenExpr); ok {
				e = pe.X
				continue
			}
			break
		}
		be, ok := e.(*ast.BinaryExpr)
		if !ok {
			return "{ l := .other, op := .other, r := .other }"
		}
		return fmt.Sprintf("{ l := %s, op := %s, r := %s }", opnd(exprString(p.fset, be.X)), cmp(be.Op), opnd(exprString(p.fset, be.Y)))
	}
	// getError: the switch cases in order
	var cases []string
	if fd := p.funcs["Status.getError"]; fd != nil {
		ast.Inspect(fd.Body, func(n ast.Node) bool {
			if sw, ok := n.(*ast.SwitchStmt); ok && sw.Tag == nil {
				for _, c := range sw.Body.List {
					cc := c.(*ast.CaseClause)
					for _, e := range cc.List {
						cases = append(cases, cond(e))
					}
				}
				return false
			}
			return true
		})
	}
	sb.WriteString("/-- `Status.getError`: the cases of its switch, in order; the first true one yields an error -/\ndef getErrorCases : List Cond := [" + strings.Join(cases, ", ") + "]\n\n")
	// rotate: (A && B) || (C && D)
	var disj [][]string
	if fd := p.funcs["FileSink.rotate"]; fd != nil {
		ast.Inspect(fd.Body, func(n ast.Node) bool {
			ifs, ok := n.(*ast.IfStmt)
			if !ok || len(disj) > 0 {
				return true
			}
			var flattenOr func(e ast.Expr) []ast.Expr
			flattenOr = func(e ast.Expr) []ast.Expr {
				if pe, ok := e.(*ast.ParenExpr); ok {
					return flattenOr(pe.X)
				}
				if be, ok := e.(*ast.BinaryExpr); ok && be.Op == token.LOR {
					return append(flattenOr(be.X), flattenOr(be.Y)...)
				}
				return []ast.Expr{e}
			}
			var flattenAnd func(e ast.Expr) []ast.Expr
			flattenAnd = func(e ast.Expr) []ast.Expr {
				if pe, ok := e.(*ast.ParenExpr); ok {
					return flattenAnd(pe.X)
				}
				if be, ok := e.(*ast.BinaryExpr); ok && be.Op == token.LAND {
					return append(flattenAnd(be.X), flattenAnd(be.Y)...)
				}
				return []ast.Expr{e}
			}
			for _, d := range flattenOr(ifs.Cond) {
				var cs []string
				for _, a := range flattenAnd(d) {
					cs = append(cs, cond(a))
				}
				disj = append(disj, cs)
			}
			return false
		})
	}
	var ds []string
	for _, d := range disj {
		ds = append(ds, "["+strings.Join(d, ", ")+"]")
	}
	sb.WriteString("/-- `FileSink.rotate`: the rotation condition in disjunctive normal form -/\ndef rotateCond : List (List Cond) := [" + strings.Join(ds, ", ") + "]\n\n")
	// rotate: the calls into package os it makes itself (the directory operations of a rotation), in source order
	var osCalls []string
	if fd := p.funcs["FileSink.rotate"]; fd != nil {
		ast.Inspect(fd.Body, func(n ast.Node) bool {
			if ce, ok := n.(*ast.CallExpr); ok {
				if se, ok := ce.Fun.(*ast.SelectorExpr); ok {
					if id, ok := se.X.(*ast.Ident); ok && id.Name == "os" {
						osCalls = append(osCalls, fmt.Sprintf("%q", se.Sel.Name))
					}
				}
			}
			return true
		})
	}
	// NodeController.Close: the cases of the type switch inside its loop, in order, with what each one does
	var closeCases []string
	if fd := p.funcs["NodeController.Close"]; fd != nil {
		ast.Inspect(fd.Body, func(n ast.Node) bool {
			ts, ok := n.(*ast.TypeSwitchStmt)
			if !ok {
				return true
			}
			for _, c := range ts.Body.List {
				cc := c.(*ast.CaseClause)
				name := "default"
				if len(cc.List) == 1 {
					name = types.ExprString(cc.List[0])
				} else if len(cc.List) > 1 {
					name = "several"
				}
				act := "other"
				if len(cc.Body) == 1 {
					switch st := cc.Body[0].(type) {
					case *ast.ReturnStmt:
						if len(st.Results) == 1 {
							r := types.ExprString(st.Results[0])
							if r == "nil" {
								act = "stop"
							} else if strings.HasSuffix(r, ".Close(ctx)") {
								act = "close"
							}
						}
					case *ast.AssignStmt:
						if len(st.Lhs) == 1 && len(st.Rhs) == 1 && st.Tok == token.ASSIGN && types.ExprString(st.Lhs[0]) == "n" && strings.HasSuffix(types.ExprString(st.Rhs[0]), ".Unwrap()") {
							act = "unwrap"
						}
					}
				}
				closeCases = append(closeCases, fmt.Sprintf("(%q, %q)", name, act))
			}
			return false
		})
	}
	sb.WriteString("/-- `NodeController.Close`: the cases of the type switch in its loop, in order, and what each does (close: return the node's own Close; unwrap: carry on with the node inside; stop: return nil) -/\ndef closeSwitch : List (String × String) := [" + strings.Join(closeCases, ", ") + "]\n\n")
	sb.WriteString("/-- `FileSink.rotate`: the functions of package os it calls itself, in source order (what it does to the directory besides closing, pruning and opening) -/\ndef rotateOsCalls : List String := [" + strings.Join(osCalls, ", ") + "]\n\nend Evl.Generated\n")
	os.WriteFile(path, []byte(sb.String()), 0o644)
}
