"""Per-property configuration of ./check: Lean module + obligations, correspondence runs, oracles."""

TB_COMMON = [
    "Lean 4.33.0 kernel (leanchecker re-check in the thorough tier)",
    "axioms allowed per obligation: propext, Classical.choice, Quot.sound (audited by #print axioms on every run)",
    "hand-written Lean model, tied to /repo by the Go correspondence harness (harness/cmd/evh, build tag verif) and the Lean line-protocol driver (lean/Driver)",
]

REGISTRY_RUN = dict(
    model="registry", sub="registry", driver="registry",
    quick=["-n", "3000", "-depth", "4"],
    thorough=["-n", "60000", "-depth", "6"],
    search=["-n", "30000", "-depth", "5"],
)

M1_ASSUME = [
    "sync.Map gives per-key atomic Store/Delete/Load and Range visits each present key once",
    "Go map iteration order does not matter for the modelled results (outputs are canonicalised by sorting)",
    "harness nodes are registered under one id each (a registration instance = one Go object)",
]

M1_RULE = ("operation sequences over {RegisterNode, RemoveNode, RegisterPipeline (incl. overwrite, repeated ids), RemovePipeline, "
           "RemovePipelineAndNodes, threshold setters/getters, IsAnyPipelineRegistered, Send, Reopen} on 2-3 event types, 3 pipeline ids, "
           "4 node ids, 5 node types, 4 policies: a structured stream, a malformed stream (empty ids, invalid policies, negative thresholds, "
           "unknown node types), the corpus, and every sequence of the reduced 13-symbol alphabet up to the tier's depth; a case is "
           "non-trivial when a RegisterPipeline or RemovePipelineAndNodes in it succeeded, distinct by its full op list")

GATED_RUN = dict(
    model="gated", sub="gated", driver="gated",
    quick=["-n", "4000", "-depth", "4"],
    thorough=["-n", "80000", "-depth", "6"],
    search=["-n", "40000", "-depth", "5"],
)
GATED_ASSUME = [
    "container/list and Go maps behave as specified; the harness injects the clock (NowFunc), a recording ComposeFrom and a recording Sender",
    "events offered in one history carry pairwise distinct identities (the harness numbers them)",
    "single-threaded histories; concurrent senders are covered by the lock-set check of C19 (Filter.l guards gated / orderedGated)",
]
GATED_RULE = ("histories over {Gateable event(id in 3 ids + empty id, flush?, clock advance incl. jumps that expire several groups), "
              "non-Gateable event, FlushAll, Close} x Broker set/unset x injected failure (composition error / Gateable composite / send "
              "error on a chosen group id), random up to 200 ops plus every sequence over a 9-symbol alphabet up to the tier's depth, "
              "each followed by one probe flush event per id; a case is non-trivial when a group was sent or flushed, distinct by op list")

DISPATCH_RUN = dict(
    model="dispatch", sub="dispatch", driver="dispatch",
    quick=["-n", "150", "-sched", "3", "-sweep", "2"],
    thorough=["-n", "4000", "-sched", "8", "-sweep", "60"],
    search=["-n", "1500", "-sched", "5", "-sweep", "20"],
)
# the same protocol on two processors: whatever the library sizes by the number of CPUs (a pool, a
# semaphore) is at its smallest
DISPATCH_RUN_2CPU = dict(
    model="dispatch", sub="dispatch", driver="dispatch", env={"GOMAXPROCS": "2"},
    quick=["-n", "60", "-sched", "2", "-sweep", "1"],
    thorough=["-n", "1000", "-sched", "4", "-sweep", "10"],
    search=["-n", "300", "-sched", "3", "-sweep", "4"],
)
DISPATCH_ASSUME = [
    "Go's select, unbuffered channels, sync.WaitGroup and goroutine creation behave as modelled (labels of Dispatch.fire)",
    "sync.Map.Range visits each present key once (no concurrent registry change during the Send under test)",
    "weak fairness of the Go scheduler: an enabled step is eventually taken (the theorems state enabledness, termination and safety)",
    "the hook trace is a linearisation consistent with the real order of the protocol steps (hooks log before Done/after select, see DESIGN.md §5.2)",
]
DISPATCH_RULE = ("real Broker.Send runs over generated sets of 0..4 pipelines x 2..5 nodes x outcomes {pass, replace, drop, error}, both thresholds in "
                 "0..n+1, cancel before the call / never / at a chosen hook event (plus a sweep over every cancel position for some configurations), "
                 "a node held inside Process, and seeded schedule perturbation; each run's hook trace is replayed through Dispatch.fire by the Lean "
                 "driver (every label must be enabled, the end state terminal, the collected Status equal to the ghost `got`); a run is non-trivial "
                 "when it has at least one pipeline, distinct by its full trace")

def race_run(scen, q=8, t=150, s=60):
    return dict(model="race:" + scen, sub="race", driver=None, race=True, use_corpus=False,
                quick=["-scenario", scen, "-rounds", str(q)], thorough=["-scenario", scen, "-rounds", str(t)],
                search=["-scenario", scen, "-rounds", str(s)])
LOCK_ASSUME = [
    "gofacts (harness/cmd/gofacts, go/ast + go/types with a stub importer) extracts field accesses, lock operations and call-back sites correctly: branch-aware linear lock tracking, same-package callees inlined with the caller's lock set, exported functions as entry points, unexported helpers analysed through their callers",
    "hand-written parts of the extractor (trusted base): the escape summary `copystructure.Copy(e)` reads Event.Formatted without Event.l; excluded locations: Broker.clock (StopTimeAt is a test helper) and per-call helper objects (Status, options, tMap, trackedMaps, cloudevents.Event ...); self-synchronising field types (sync.Map, mutexes, WaitGroup, channels)",
    "Go memory model: mutex release/acquire and sync.Map operations create happens-before edges; sync.Map gives per-key atomic Store/Delete/Range",
    "the Go race detector run (harness built -race) validates the table against the code and is the search for a failing schedule; it is not the proof",
]
LOCK_RULE = ("proof obligations are `decide`d over tables regenerated from the current source on every run (168 access rows, 4 call-back sites, 12 lock-section counts ...); "
             "the race harness runs 4 scenarios (overwrite/removal windows against concurrent Sends with marker nodes; 2-8 goroutines of random registry histories + senders with "
             "invariants at quiescence; 1-4 pipelines composed from all stock nodes with shared nodes, 2-8 senders, concurrent Reopen/Rotate; concurrent gateable senders with slow "
             "composition) under the race detector; a round is one independent configuration")

FS_RUN = dict(
    model="filesink", sub="filesink", driver="filesink",
    quick=["-n", "300", "-conc", "14", "-kill", "24"],
    thorough=["-n", "6000", "-conc", "60", "-kill", "300"],
    search=["-n", "2000", "-conc", "20", "-kill", "60"],
)
FS_ASSUME = [
    "one write(2) on an O_APPEND regular file is all-or-nothing under SIGKILL; rename/unlink/open behave as on Linux (inode semantics)",
    "the wall clock does not step backwards (file names are ordered by it); the time condition of rotate() is an input of the model, decided by the harness from the measured interval (uncertain cases are counted in the evidence)",
    "write failures (the retry path of Process) are not exercised: real files on a healthy file system",
]
FS_RULE = ("operation sequences (write of 4..200 bytes, Reopen, external rename of the active file [+Reopen], pause > MaxDuration) x MaxBytes in {0,50,120,300} x MaxFiles 0..3 x "
           "MaxDuration in {0,30ms} x TimestampOnlyOnRotate x Mode in {unset,0640} on real files, directory listing (names -> kind+rank, contents -> event ids, modes, BytesWritten) "
           "compared with the model after every step; plus 1-8 concurrent writers and a child process SIGKILLed at a random instant, checked by the Go oracle; a case is "
           "non-trivial when at least two events were acknowledged, distinct by op list")

ENC_RUN = dict(
    model="encrypt", sub="encrypt", driver="encrypt",
    quick=["-n", "3000", "-deep", "3000"], thorough=["-n", "100000", "-deep", "100000"], search=["-n", "30000", "-deep", "30000"],
)
ENC_TREE_RUN = dict(
    model="enctree", sub="enctree", driver="enctree",
    quick=["-n", "4000"], thorough=["-n", "150000"], search=["-n", "30000"],
)
ENC_TAG_RUN = dict(
    model="enctag", sub="enctag", driver="enctag",
    quick=["-n", "4000"], thorough=["-n", "150000"], search=["-n", "30000"],
)
ENC_ASSUME = [
    "the Lean models cover tag resolution for every tag string / override map, Process on pointers to flat structs (M7) and Process on nested value trees of structs, pointers, interface-held values, slices, slices of slices and untagged maps with addressability (M7t, tied by the enctree correspondence on run-time-built Go types) and Process on Taggable map payloads with pointer tags through nested maps and pointers to maps (M7g, enctag correspondence); pointer tags through slices / structs, Taggable values below the payload, IgnoreTypes and deeper exotic shapes and wrapper-value (wrapperspb) fields are decided on the implementation by the canary oracle (24 deep shape classes); structpb values are not exercised",
    "every produced value is canonicalised by independent code: AEAD Decrypt with each candidate key (go-kms-wrapping), HKDF (x/crypto) + HMAC-SHA256 recomputation",
    "copystructure / pointerstructure / reflect settability as observed through the correspondence",
]
ENC_RULE = ("(i) flat structs built at run time (reflect.StructOf) with 1-6 string / []byte / int fields and `class` tags from a pool of 19 spellings (valid, unknown, mixed case, "
            "extra segments, empty), no tag, nil byte slices; override maps over {public, sensitive, secret, bogus} x {none, redact, encrypt, hmac, unknown op}; wrapper present / absent; "
            "EventWrapperInfo payloads (event id present / empty, per-event salt / info); Rotate and rotation payloads in between; leaf-by-leaf comparison with the model. "
            "(ii) 14 deep shape classes with canary tokens per leaf: a protected canary must not survive anywhere in the forwarded event, public ones must, input snapshot unchanged, "
            "shape preserved. Non-trivial = a filtered copy was produced")

PROPS = {
    "C01": dict(
        module="Evl.Props.C01",
        theorems=["Evl.C01.order", "Evl.C01.unstarted_empty", "Evl.C01.complete", "Evl.C01.selection", "Evl.C01.selection_once",
                  "Evl.C01.stopIndex_eq", "Evl.C03.on_source"],
        runs=[DISPATCH_RUN, REGISTRY_RUN, race_run("typehook", 6, 60, 20)], oracle_prefixes=["C01"], models=["M2 Dispatch", "M1 Registry"],
        trusted_base=TB_COMMON, assumptions=DISPATCH_ASSUME + M1_ASSUME + ["the identity of the event handed from node k to node k+1 is checked by the harness oracle on the implementation, not carried by the Lean model"],
        rule=DISPATCH_RULE + " || " + M1_RULE,
    ),
    "C02": dict(
        module="Evl.Props.C02",
        theorems=["Evl.C02.sound", "Evl.C02.sinks_sublist", "Evl.C02.complete", "Evl.C02.error_iff", "Evl.C02.threshold_negative",
                  "Evl.C02.threshold_readback", "Evl.C02.thresholdSinks_readback", "Evl.C02.getError_on_source"],
        runs=[DISPATCH_RUN, REGISTRY_RUN], oracle_prefixes=["C02"], models=["M2 Dispatch", "M1 Registry"],
        trusted_base=TB_COMMON, assumptions=DISPATCH_ASSUME + M1_ASSUME, rule=DISPATCH_RULE + " || " + M1_RULE,
    ),
    "C03": dict(
        module="Evl.Props.C03",
        theorems=["Evl.C03.progress", "Evl.C03.prompt", "Evl.C03.measure_decreases", "Evl.C03.terminates", "Evl.C03.clean",
                  "Evl.C03.no_send_on_closed", "Evl.C03.closed_is_final", "Evl.C03.done_matches_add", "Evl.C03.add_is_safe", "Evl.C03.send_holds_no_lock", "Evl.C03.on_source"],
        runs=[DISPATCH_RUN, DISPATCH_RUN_2CPU, REGISTRY_RUN], oracle_prefixes=["C03"], models=["M2 Dispatch", "M1 Registry (Sends after arbitrary registry histories: no panic, Send returns)"],
        trusted_base=TB_COMMON,
        assumptions=DISPATCH_ASSUME + ["partial: wall-clock promptness is measured by the harness (Send must return within 0.5 s of a cancel while nodes are held) but not part of any theorem; `prompt` is an enabledness statement"],
        rule=DISPATCH_RULE,
    ),
    "C04": dict(
        module="Evl.Props.C04",
        theorems=["Evl.C04.discipline", "Evl.C04.discipline_ok", "Evl.C04.discipline_nonvacuous", "Evl.C04.one_section", "Evl.C04.roots_mutations_in_section", "Evl.C04.window_registered", "Evl.C04.window_removed", "Evl.C04.window_overlap", "Evl.C04.swap_is_one_store",
                  "Evl.C04.lockset_sound'", "Evl.C04.sequential"],
        runs=[race_run("window", 30, 400, 120), race_run("registry", 300, 3000, 1000), race_run("typehook", 6, 60, 20), REGISTRY_RUN], oracle_prefixes=["C04"], models=["M4 Lockset", "M1 Registry", "Generated.Accesses/RegistryFacts"],
        trusted_base=TB_COMMON + ["gofacts translator: Evl/Generated/*.lean are regenerated from /repo on every run"],
        assumptions=LOCK_ASSUME + M1_ASSUME, rule=LOCK_RULE,
        technique="Lean 4 proof (lock-set soundness theorem + kernel `decide` over facts regenerated from source by a translator) + race-detector concurrency harness as validation/search",
    ),
    "C12": dict(
        module="Evl.Props.C12",
        theorems=["Evl.C12.flat_step", "Evl.C12.flat_progress", "Evl.C12.w_reentry_deadlocks", "Evl.C12.r_reentry_deadlocks_with_writer", "Evl.C12.on_source", "Evl.NodeClose.close_returns", "Evl.NodeClose.close_on_source"],
        runs=[dict(model="reentry", sub="reentry", driver=None, use_corpus=False, quick=[], thorough=["-rounds", "20"], search=["-rounds", "5"])],
        oracle_prefixes=["C12"], models=["M3 Locks", "Generated.LockSites"],
        trusted_base=TB_COMMON + ["gofacts translator: Evl/Generated/LockSites.lean is regenerated from /repo on every run"],
        assumptions=LOCK_ASSUME + ["sync.RWMutex is writer-preferring and not re-entrant (modelled in Evl.Locks.next)", "user nodes themselves return"],
        rule="`on_source` is decided over the regenerated call-back table; the re-entry harness runs every Broker operation with nodes that call Send from Process / Close / Reopen, a gated.Filter wired to the same Broker with 0-3 pending groups, with and without a writer parked on the lock, under a watchdog",
        technique="Lean 4 proof (progress theorem for flat threads over a writer-preferring RWMutex + `decide` over call-back sites regenerated from source) + re-entrant watchdog harness",
    ),
    "C19": dict(
        module="Evl.Props.C19",
        theorems=["Evl.C19.discipline_partial", "Evl.C19.sink_writes_exclusive", "Evl.C19.gated_compose_under_lock",
                  "Evl.C19.no_nested_acquisition", "Evl.C19.table_nonvacuous"],
        runs=[race_run("stock,gated"), race_run("stockenc", 4, 40, 20)], oracle_prefixes=["C19"], models=["M4 Lockset", "Generated.Accesses/LockSites"],
        trusted_base=TB_COMMON + ["gofacts translator: Evl/Generated/*.lean are regenerated from /repo on every run"],
        assumptions=LOCK_ASSUME, rule=LOCK_RULE,
        technique="Lean 4 proof (lock-set soundness theorem + kernel `decide` over the access table regenerated from source) + race-detector harness over stock-node compositions",
    ),
    "C05": dict(
        module="Evl.Props.C05",
        theorems=["Evl.C05.accept_iff", "Evl.C05.failed_noop", "Evl.C05.failed_graph_residue", "Evl.C05.isAny_iff",
                  "Evl.C05.only_wellformed_registered", "Evl.C05.validateChain_flat"],
        runs=[REGISTRY_RUN, race_run("typehook", 6, 60, 20)], oracle_prefixes=["C05"], models=["M1 Registry"],
        trusted_base=TB_COMMON, assumptions=M1_ASSUME, rule=M1_RULE,
    ),
    "C06": dict(
        module="Evl.Props.C06",
        theorems=["Evl.C06.refs_eq_listing", "Evl.C06.inUse_iff", "Evl.C06.listed_registered", "Evl.C06.removeNode_inUse",
                  "Evl.C06.removeNode_free", "Evl.C06.rpan_effect", "Evl.C06.close_once",
                  "Evl.NodeClose.close_spec", "Evl.NodeClose.closes_registered_node", "Evl.NodeClose.close_on_source"],
        runs=[REGISTRY_RUN, race_run("typehook", 6, 60, 20)], oracle_prefixes=["C06"], models=["M1 Registry"],
        trusted_base=TB_COMMON, assumptions=M1_ASSUME, rule=M1_RULE,
    ),
    "C07": dict(
        module="Evl.Props.C07",
        theorems=["Evl.C07.deny_node_refuses", "Evl.C07.deny_node_sticky", "Evl.C07.deny_pipe_refuses", "Evl.C07.deny_pipe_sticky",
                  "Evl.C07.allow_node_overwrite", "Evl.C07.allow_pipe_overwrite", "Evl.C07.invalid_policy_rejected",
                  "Evl.C07.node_rebinding", "Evl.C07.one_version_on_source", "Evl.C07.one_version",
                  "Evl.C07.invalid_option_anywhere", "Evl.C07.valid_options"],
        runs=[REGISTRY_RUN, race_run("window", 30, 400, 120), race_run("typehook", 6, 60, 20)], oracle_prefixes=["C07", "C01/C07"], models=["M1 Registry"],
        trusted_base=TB_COMMON, assumptions=M1_ASSUME, rule=M1_RULE,
    ),
    "C20": dict(
        module="Evl.Props.C20",
        theorems=["Evl.C20.reopen_all", "Evl.C20.reopen_reaches_every_node", "Evl.C20.reopen_error"],
        runs=[REGISTRY_RUN, race_run("reopen", 5, 60, 20)], oracle_prefixes=["C20"], models=["M1 Registry"],
        trusted_base=TB_COMMON,
        assumptions=M1_ASSUME + ["with a failing node Broker.Reopen returns at the first failing graph in Go's map order: which other nodes are reached is not compared"],
        rule=M1_RULE,
    ),
    "C08": dict(
        module="Evl.Props.C08",
        theorems=["Evl.C08.no_loss_without_retention", "Evl.C08.nothing_invented", "Evl.C08.retention_only_removes", "Evl.C08.step_holds",
                  "Evl.C08.open_contents", "Evl.C08.append_contents", "Evl.C08.exactly_once_in_order", "Evl.C08.suffix_under_retention",
                  "Evl.C08.rotation_is_one_rename"],
        runs=[FS_RUN], oracle_prefixes=["C08"], models=["M5 FileSink", "Generated.Decisions(rotateOsCalls)"],
        trusted_base=TB_COMMON,
        assumptions=FS_ASSUME + ["exactly once / order across files (MaxFiles = 0, every history) and the suffix shape under retention (histories without external renames) are Lean theorems over the ordering invariant Ord; partial: concurrent writers are serialised by FileSink.l (C19 facts + concurrent-writer runs) and crash atomicity rests on write(2)/O_APPEND, exercised by the SIGKILL child"],
        rule=FS_RULE,
    ),
    "C15": dict(
        module="Evl.Props.C15",
        theorems=["Evl.C15.trigger_iff", "Evl.C15.no_age_rotation_without_positive_duration", "Evl.C15.trigger_on_source", "Evl.C15.never_without_limits", "Evl.C15.prune_keeps_foreign",
                  "Evl.C15.created_mode", "Evl.C15.open_name", "Evl.C15.prune_bound", "Evl.C15.retention_bound", "Evl.C15.rotate_below", "Evl.C15.write_below_limit", "Evl.C15.no_rotation_without_trigger"],
        runs=[FS_RUN], oracle_prefixes=["C15"], models=["M5 FileSink", "Generated.Decisions"],
        trusted_base=TB_COMMON + ["gofacts translator: the rotation condition is regenerated from file_sink.go on every run"],
        assumptions=FS_ASSUME, rule=FS_RULE,
    ),
    "C13": dict(
        module="Evl.Props.C13",
        theorems=["Evl.C13.writer_success", "Evl.C13.writer_error", "Evl.C13.table_lww", "Evl.C13.table_history", "Evl.C13.table_keys_nodup", "Evl.C13.table_commutes", "Evl.C13.table_idempotent", "Evl.C13.table_empty", "Evl.C13.filesink_specials",
                  "Evl.C13.channel_exactly_one", "Evl.C13.write_under_lock", "Evl.C13.channel_single_select", "Evl.C13.filesink_refuses_unformatted"],
        runs=[dict(model="sinks", sub="sinks", driver="sinks", quick=["-n", "4000"], thorough=["-n", "120000"], search=["-n", "40000"]), FS_RUN],
        oracle_prefixes=["C13"], models=["M9 Sinks", "Generated.LockSites(sinkWrites)"],
        trusted_base=TB_COMMON + ["gofacts translator: the WriteTo call sites and the lock held there are regenerated from source"],
        assumptions=["bytes.Reader.WriteTo issues one Write and reports io.ErrShortWrite on a short count (Go standard library)",
                     "Go's select chooses among ready arms; time.After fires after the duration",
                     "partial: wall-clock latency of ChannelSink is measured by the harness (must not block when an arm is ready, nor much longer than the timeout), not proved"],
        rule="writer.Sink over random format tables (0-3 formats) x configured format x writers {ok, failing, short n, nil} x nil event; FileSink /dev/null and stdout pass-through; ChannelSink with channel full/empty x context cancelled or not (timeout 15 ms); Event.FormattedAs/Format sequences; 1-16 concurrent Process calls with an interleaving check; distinct by op line",
    ),
    "C14": dict(
        module="Evl.Props.C14Parse",
        theorems=["Evl.C14.line", "Evl.C14.esc_no_nl", "Evl.C14.render_no_nl", "Evl.C14.unencodable", "Evl.C14.predicate", "Evl.C14.table",
                  "Evl.Json.read_esc", "Evl.C14.type_decodes_back", "Evl.C14.ascii_type_decodes_back",
                  "Evl.Json.render_toks", "Evl.Json.parseV_render", "Evl.Json.parse_render", "Evl.Json.image_clean",
                  "Evl.C14.line_parses_back", "Evl.C14.line_determines_payload"],
        runs=[dict(model="json", sub="json", driver="json", quick=["-n", "6000"], thorough=["-n", "300000"], search=["-n", "60000"]),
              race_run("stock", 3, 40, 12)],
        oracle_prefixes=["C14"], models=["M8 Json", "M8r JsonParse", "M9 Sinks(table)"],
        trusted_base=TB_COMMON,
        assumptions=["encoding/json on leaves: number tokens (strconv) and time.Time's RFC 3339 rendering are passed verbatim to the model; map keys are sorted bytewise by the encoder",
                     "the harness flattens the generated Go value into the token stream in the encoder's order; unsupported kinds (chan, NaN/Inf) are marked by the harness",
                     "decoding back: proved with the model's own strict JSON parser (M8r Evl.Json.parseDoc / readStr: compact documents, RFC 8259 number grammar, invalid UTF-8 comes back as U+FFFD) - the whole stored line parses to the object {created_at, event_type, payload} holding the images of the three; that parser is itself compared with encoding/json as a reader (json.Valid + Decoder.Token) on the stored lines and on lines damaged in one place (operations parse / accepts); trusted: the bytes time.Time and strconv produce for the creation time and for numbers (a JSON value each); race freedom of the table is C19's lock-set theorem"],
        rule="payloads from a JSON-value generator (nil, bools, large ints, floats incl. NaN/Inf, strings built from control / HTML / multi-byte / U+2028/9 / invalid UTF-8 pieces, nested slices and maps to depth 3; unencodable values of seven kinds: channels, functions, failing MarshalJSON / MarshalText (value and map key), invalid RawMessage, invalid json.Number; zero and zoned creation times) x event types with special characters x JSONFormatter / JSONFormatterFilter with predicate absent/keep/drop/error, eventlogger.Filter; the stored bytes are compared byte for byte with the model's rendering; non-trivial = a container or multi-token payload, distinct by op line",
    ),
    "C18": dict(
        module="Evl.Props.C18Text",
        theorems=["Evl.C18.reject", "Evl.C18.process_valid", "Evl.C18.sign_failure", "Evl.C18.signed", "Evl.C18.unlisted_not_signed",
                  "Evl.CloudEvents.b64dec_b64", "Evl.CloudEvents.doc_render", "Evl.C18.signed_verifies", "Evl.C18.unsigned_bytes", "Evl.C18.signed_document_verifies",
                  "Evl.CloudEvents.compact_indent", "Evl.CloudEvents.text_compacts", "Evl.C18.signed_text_verifies", "Evl.C18.signed_text_document_verifies"],
        runs=[dict(model="ce", sub="ce", driver="ce", quick=["-n", "5000"], thorough=["-n", "200000"], search=["-n", "50000"])],
        oracle_prefixes=["C18"], models=["M8b CloudEvents", "M8 Json", "M8r JsonParse", "M8v CloudEventsVerify"],
        trusted_base=TB_COMMON,
        assumptions=["encoding/json struct field order / omitempty and json.Indent as modelled (compared byte for byte); time.Time RFC 3339 token and url.URL.String() passed verbatim",
                     "base62.Random gives fresh ids (the harness checks collisions within a run only)",
                     "the harness signer is a deterministic function the Lean driver can recompute; a failing signer returns an error",
                     "verification (signed_document_verifies, signed_text_document_verifies): the consumer is the model's own verify / verifyText (M8v: strict parser M8r, json.Compact as modelled, base64url decoder), each compared with a standard-library implementation on every stored document; hypotheses: data is a JSON value or absent, the time token is the JSON text of a value, the signer returns non-empty valid UTF-8"],
        rule="all payload kinds (raw value, plain struct, ID, Data, both; nil data) x formats {unset, json, text, invalid} x schema set/unset/empty x source set/nil/empty x signer absent / succeeding / failing x listed / unlisted event types (incl. types with HTML and invalid UTF-8 bytes) x predicate absent/keep/drop/error; non-trivial = a document was produced, distinct by op line",
    ),
    "C09": dict(
        module="Evl.Props.C09",
        theorems=["Evl.C09.tag_secure", "Evl.C09.unknown_redacted", "Evl.C09.action_keep_iff", "Evl.C09.filterLeaf_noleak", "Evl.C09.filterOne_noleak", "Evl.C09.filterElems_noleak", "Evl.C09.slice_noleak", "Evl.C09.flat_noleak", "Evl.C09.fail_closed", "Evl.C09.tree_noleak", "Evl.C09.tree_fail_closed",
                  "Evl.C09.tagged_noleak", "Evl.C09.untagged_key_redacted", "Evl.C09.tagged_fail_closed", "Evl.C09.bad_tag_stops", "Evl.C09.misspelt_pointer_tag_fails", "Evl.C09.pointer_tag_secure", "Evl.C09.tagAction_keep_iff"],
        runs=[ENC_RUN, ENC_TREE_RUN, ENC_TAG_RUN], oracle_prefixes=["C09"], models=["M7 Encrypt (tag resolution, flat structs)", "M7t EncryptTree (nested values)", "M7g EncryptTag (Taggable maps, pointer tags)"],
        trusted_base=TB_COMMON, assumptions=ENC_ASSUME, rule=ENC_RULE,
    ),
    "C10": dict(
        module="Evl.Props.C10",
        theorems=["Evl.C10.shape", "Evl.C10.filterElems_length", "Evl.C10.length_preserved", "Evl.C10.identity", "Evl.C10.tree_shape", "Evl.C10.tree_identity", "Evl.C10.tagged_public_preserved", "Evl.C10.tagged_shape", "Evl.C10.tagged_identity"],
        runs=[ENC_RUN, ENC_TREE_RUN, ENC_TAG_RUN], oracle_prefixes=["C10"], models=["M7 Encrypt (flat structs)", "M7t EncryptTree (nested values)", "M7g EncryptTag (Taggable maps, pointer tags)"],
        trusted_base=TB_COMMON, assumptions=ENC_ASSUME + ["partial: 'the input is not modified' is decided by the deep before/after snapshot comparison of the harness on every case; Go-level aliasing is outside the value model"],
        rule=ENC_RULE,
    ),
    "C16": dict(
        module="Evl.Props.C16",
        theorems=["Evl.C16.key_in_force", "Evl.C16.per_event_precedence", "Evl.C16.rotation", "Evl.C16.last_wrapper_wins", "Evl.C16.deterministic",
                  "Evl.C16.under_material_in_force", "Evl.C16.old_or_new", "Evl.C16.atomic_on_source"],
        runs=[ENC_RUN, race_run("encrot", 25, 400, 150)], oracle_prefixes=["C16"], models=["M7 Encrypt (key material)", "Generated.EncryptFacts"],
        trusted_base=TB_COMMON + ["gofacts translator: EncryptFacts (Rotate / the rotation-payload branch / encrypt / hmacSha256 each use one exclusive section of Filter.l and call no method of the filter inside it) is regenerated from filters/encrypt/filter.go on every run"],
        assumptions=ENC_ASSUME + ["go-kms-wrapping AEAD decrypt o encrypt = id; HKDF and HMAC-SHA256 themselves; a critical section of Filter.l is an atomic step (Go memory model for mutexes)"],
        rule=ENC_RULE,
    ),
    "C11": dict(
        module="Evl.Props.C11",
        theorems=["Evl.C11.conservation_step", "Evl.C11.conservation", "Evl.C11.no_duplication", "Evl.C11.passthrough",
                  "Evl.C11.no_id_rejected", "Evl.C11.never_gateable_via_broker", "Evl.C11.flush_trigger",
                  "Evl.C11.grouping_step", "Evl.C11.grouping", "Evl.C11.sections_on_source"],
        runs=[GATED_RUN, race_run("gated", 15, 300, 100)], oracle_prefixes=["C11"], models=["M6 Gated"],
        trusted_base=TB_COMMON, assumptions=GATED_ASSUME + ["grouping / arrival order: proved as a refinement of the per-id queue specification (Evl.Lemmas.GatedSpec) for every history from the empty gate; concurrent senders are serialised by Filter.l (C19 facts + race scenario gated)"],
        rule=GATED_RULE,
    ),
    "C17": dict(
        module="Evl.Props.C17",
        theorems=["Evl.C17.process_expiry", "Evl.C17.bound", "Evl.C17.flushAll_empties", "Evl.C17.flushAll_progress", "Evl.C17.flushes_empty", "Evl.C17.flushAll_empty_noop", "Evl.C17.close_is_flushAll", "Evl.C17.sections_on_source"],
        runs=[GATED_RUN, race_run("gated", 15, 300, 100)], oracle_prefixes=["C17"], models=["M6 Gated", "Generated.LockSites(gatedSections)"],
        trusted_base=TB_COMMON, assumptions=GATED_ASSUME, rule=GATED_RULE,
    ),
}
NOT_CLAIMED = {}
