"""Per-property configuration of ./check: Lean module + obligations, correspondence runs, oracles."""

TB_COMMON = [
    "Lean 4.33.0 kernel (leanchecker re-check in the thorough tier)",
    "axioms allowed per obligation: propext, Classical.choice, Quot.sound (audited by #print axioms on every run)",
    "hand-written Lean model, tied to /repo by the Go correspondence harness (harness/cmd/evh, build tag verif) and the Lean line-protocol driver (lean/Driver)",
]

REGISTRY_RUN = dict(
    model="registry", sub="registry", driver="registry",
    quick=["-n", "3000", "-depth", "4"],
    thorough=["-n", "60000", "-depth", "6"],
    search=["-n", "30000", "-depth", "5"],
)

M1_ASSUME = [
    "sync.Map gives per-key atomic Store/Delete/Load and Range visits each present key once",
    "Go map iteration order does not matter for the modelled results (outputs are canonicalised by sorting)",
    "harness nodes are registered under one id each (a registration instance = one Go object)",
]

M1_RULE = ("operation sequences over {RegisterNode, RemoveNode, RegisterPipeline (incl. overwrite, repeated ids), RemovePipeline, "
           "RemovePipelineAndNodes, threshold setters/getters, IsAnyPipelineRegistered, Send, Reopen} on 2-3 event types, 3 pipeline ids, "
           "4 node ids, 5 node types, 4 policies: a structured stream, a malformed stream (empty ids, invalid policies, negative thresholds, "
           "unknown node types), the corpus, and every sequence of the reduced 13-symbol alphabet up to the tier's depth; a case is "
           "non-trivial when a RegisterPipeline or RemovePipelineAndNodes in it succeeded, distinct by its full op list")

GATED_RUN = dict(
    model="gated", sub="gated", driver="gated",
    quick=["-n", "4000", "-depth", "4"],
    thorough=["-n", "80000", "-depth", "6"],
    search=["-n", "40000", "-depth", "5"],
)
GATED_ASSUME = [
    "container/list and Go maps behave as specified; the harness injects the clock (NowFunc), a recording ComposeFrom and a recording Sender",
    "events offered in one history carry pairwise distinct identities (the harness numbers them)",
    "single-threaded histories; concurrent senders are covered by the lock-set check of C19 (Filter.l guards gated / orderedGated)",
]
GATED_RULE = ("histories over {Gateable event(id in 3 ids + empty id, flush?, clock advance incl. jumps that expire several groups), "
              "non-Gateable event, FlushAll, Close} x Broker set/unset x injected failure (composition error / Gateable composite / send "
              "error on a chosen group id), random up to 200 ops plus every sequence over a 9-symbol alphabet up to the tier's depth, "
              "each followed by one probe flush event per id; a case is non-trivial when a group was sent or flushed, distinct by op list")

PROPS = {
    "C05": dict(
        module="Evl.Props.C05",
        theorems=["Evl.C05.accept_iff", "Evl.C05.failed_noop", "Evl.C05.failed_graph_residue", "Evl.C05.isAny_iff",
                  "Evl.C05.only_wellformed_registered", "Evl.C05.validateChain_flat"],
        runs=[REGISTRY_RUN], oracle_prefixes=["C05"], models=["M1 Registry"],
        trusted_base=TB_COMMON, assumptions=M1_ASSUME, rule=M1_RULE,
    ),
    "C06": dict(
        module="Evl.Props.C06",
        theorems=["Evl.C06.refs_eq_listing", "Evl.C06.inUse_iff", "Evl.C06.listed_registered", "Evl.C06.removeNode_inUse",
                  "Evl.C06.removeNode_free", "Evl.C06.rpan_effect", "Evl.C06.close_once"],
        runs=[REGISTRY_RUN], oracle_prefixes=["C06"], models=["M1 Registry"],
        trusted_base=TB_COMMON, assumptions=M1_ASSUME, rule=M1_RULE,
    ),
    "C07": dict(
        module="Evl.Props.C07",
        theorems=["Evl.C07.deny_node_refuses", "Evl.C07.deny_node_sticky", "Evl.C07.deny_pipe_refuses", "Evl.C07.deny_pipe_sticky",
                  "Evl.C07.allow_node_overwrite", "Evl.C07.allow_pipe_overwrite", "Evl.C07.invalid_policy_rejected",
                  "Evl.C07.node_rebinding", "Evl.C07.one_version"],
        runs=[REGISTRY_RUN], oracle_prefixes=["C07", "C01/C07"], models=["M1 Registry"],
        trusted_base=TB_COMMON, assumptions=M1_ASSUME, rule=M1_RULE,
    ),
    "C20": dict(
        module="Evl.Props.C20",
        theorems=["Evl.C20.reopen_all", "Evl.C20.reopen_reaches_every_node", "Evl.C20.reopen_error"],
        runs=[REGISTRY_RUN], oracle_prefixes=["C20"], models=["M1 Registry"],
        trusted_base=TB_COMMON,
        assumptions=M1_ASSUME + ["with a failing node Broker.Reopen returns at the first failing graph in Go's map order: which other nodes are reached is not compared"],
        rule=M1_RULE,
    ),
    "C11": dict(
        module="Evl.Props.C11",
        theorems=["Evl.C11.conservation_step", "Evl.C11.conservation", "Evl.C11.no_duplication", "Evl.C11.passthrough",
                  "Evl.C11.no_id_rejected", "Evl.C11.never_gateable_via_broker", "Evl.C11.flush_trigger"],
        runs=[GATED_RUN], oracle_prefixes=["C11"], models=["M6 Gated"],
        trusted_base=TB_COMMON, assumptions=GATED_ASSUME + ["partial: the per-id grouping/arrival-order clause is checked on the implementation by the Go oracle and holds in the model by construction of addEvent; its Lean refinement theorem is not yet proved"],
        rule=GATED_RULE,
    ),
    "C17": dict(
        module="Evl.Props.C17",
        theorems=["Evl.C17.process_expiry", "Evl.C17.bound", "Evl.C17.flushAll_empties", "Evl.C17.close_is_flushAll"],
        runs=[GATED_RUN], oracle_prefixes=["C17"], models=["M6 Gated"],
        trusted_base=TB_COMMON, assumptions=GATED_ASSUME, rule=GATED_RULE,
    ),
}
NOT_CLAIMED = {}
