"""Per-property configuration of ./check: Lean module + obligations, correspondence runs, oracles."""

TB_COMMON = [
    "Lean 4.33.0 kernel (leanchecker re-check in the thorough tier)",
    "axioms allowed per obligation: propext, Classical.choice, Quot.sound (audited by #print axioms on every run)",
    "hand-written Lean model, tied to /repo by the Go correspondence harness (harness/cmd/evh, build tag verif) and the Lean line-protocol driver (lean/Driver)",
]

REGISTRY_RUN = dict(
    model="registry", sub="registry", driver="registry",
    quick=["-n", "3000", "-depth", "4"],
    thorough=["-n", "60000", "-depth", "6"],
    search=["-n", "30000", "-depth", "5"],
)

M1_ASSUME = [
    "sync.Map gives per-key atomic Store/Delete/Load and Range visits each present key once",
    "Go map iteration order does not matter for the modelled results (outputs are canonicalised by sorting)",
    "harness nodes are registered under one id each (a registration instance = one Go object)",
]

M1_RULE = ("operation sequences over {RegisterNode, RemoveNode, RegisterPipeline (incl. overwrite, repeated ids), RemovePipeline, "
           "RemovePipelineAndNodes, threshold setters/getters, IsAnyPipelineRegistered, Send, Reopen} on 2-3 event types, 3 pipeline ids, "
           "4 node ids, 5 node types, 4 policies: a structured stream, a malformed stream (empty ids, invalid policies, negative thresholds, "
           "unknown node types), the corpus, and every sequence of the reduced 13-symbol alphabet up to the tier's depth; a case is "
           "non-trivial when a RegisterPipeline or RemovePipelineAndNodes in it succeeded, distinct by its full op list")

PROPS = {
    "C05": dict(
        module="Evl.Props.C05",
        theorems=["Evl.C05.accept_iff", "Evl.C05.failed_noop", "Evl.C05.failed_graph_residue", "Evl.C05.isAny_iff",
                  "Evl.C05.only_wellformed_registered", "Evl.C05.validateChain_flat"],
        runs=[REGISTRY_RUN], oracle_prefixes=["C05"], models=["M1 Registry"],
        trusted_base=TB_COMMON, assumptions=M1_ASSUME, rule=M1_RULE,
    ),
    "C06": dict(
        module="Evl.Props.C06",
        theorems=["Evl.C06.refs_eq_listing", "Evl.C06.inUse_iff", "Evl.C06.listed_registered", "Evl.C06.removeNode_inUse",
                  "Evl.C06.removeNode_free", "Evl.C06.rpan_effect", "Evl.C06.close_once"],
        runs=[REGISTRY_RUN], oracle_prefixes=["C06"], models=["M1 Registry"],
        trusted_base=TB_COMMON, assumptions=M1_ASSUME, rule=M1_RULE,
    ),
    "C07": dict(
        module="Evl.Props.C07",
        theorems=["Evl.C07.deny_node_refuses", "Evl.C07.deny_node_sticky", "Evl.C07.deny_pipe_refuses", "Evl.C07.deny_pipe_sticky",
                  "Evl.C07.allow_node_overwrite", "Evl.C07.allow_pipe_overwrite", "Evl.C07.invalid_policy_rejected",
                  "Evl.C07.node_rebinding", "Evl.C07.one_version"],
        runs=[REGISTRY_RUN], oracle_prefixes=["C07", "C01/C07"], models=["M1 Registry"],
        trusted_base=TB_COMMON, assumptions=M1_ASSUME, rule=M1_RULE,
    ),
    "C20": dict(
        module="Evl.Props.C20",
        theorems=["Evl.C20.reopen_all", "Evl.C20.reopen_reaches_every_node", "Evl.C20.reopen_error"],
        runs=[REGISTRY_RUN], oracle_prefixes=["C20"], models=["M1 Registry"],
        trusted_base=TB_COMMON,
        assumptions=M1_ASSUME + ["with a failing node Broker.Reopen returns at the first failing graph in Go's map order: which other nodes are reached is not compared"],
        rule=M1_RULE,
    ),
}
