#!/bin/sh
# Run every claimed check (quick by default) on /repo's current tree; evidence/*.json is rewritten.
# usage: ./runall.sh [quick|thorough] [parallelism]
cd "$(dirname "$0")"
TIER=${1:-quick}
P=${2:-4}
python3 -c "import checkprops; print('\n'.join(sorted(checkprops.PROPS)))" | xargs -P "$P" -I{} sh -c "./check {} --tier $TIER 2>&1 | grep -v '^KNOWN-FINDING' | tail -3"
