#!/bin/sh
# Build the framework from files on disk only (offline): Lean library + driver, Go harness.
set -e
cd "$(dirname "$0")"
export GOFLAGS=-mod=mod GOPROXY=off GOSUMDB=off GOTOOLCHAIN=local
mkdir -p .work evidence
cp harness/go.sum.base harness/go.sum
(cd harness && go run ./cmd/gofacts -repo /repo -out ../lean/Evl/Generated)
(cd lean && lake build Evl Evl.Props.C19Known evldriver)
(cd harness && go build -tags verif -o ../.work/evh-setup ./cmd/evh && rm -f ../.work/evh-setup)
echo setup-ok
